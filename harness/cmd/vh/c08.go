package main

// C08 — Cedar text marshalling round-trips every policy: DIRECT ORACLE on the implementation
// (MarshalCedar → UnmarshalCedar; effect/annotations/scope; evaluation on ≥ 8 environments; second
// rendering byte-identical; PolicyList / PolicySet / Encoder→Decoder sequences), plus the
// correspondence of the Lean model of the marshaller (ops marshal, marshal-parse) and of the value renderers
// types.Value.MarshalCedar (op marshal-value: bytes up to set member order + the parser's reading of them).
// c08_chains.go: arithmetic chains over overflow-sensitive operands + structural comparison of the reparsed tree;
// c08_encoder.go: the streaming Encoder over failing writers.

import (
	"bytes"
	"encoding/json"
	"fmt"
	"io"
	"os"
	"sort"
	"strings"

	cedar "github.com/cedar-policy/cedar-go"
	publicast "github.com/cedar-policy/cedar-go/ast"
	"github.com/cedar-policy/cedar-go/types"
	"github.com/cedar-policy/cedar-go/x/exp/ast"
	"github.com/cedar-policy/cedar-go/x/exp/eval"
	"github.com/cedar-policy/cedar-go/x/exp/verifhooks"

	"verifharness/vh"
)

func init() { props["C08"] = runC08 }

var c08Causes = []vh.Cause{vh.CauseMethodWithoutReceiver, vh.CauseNegativeReceiver, vh.CauseNegatedIntReceiver, vh.CauseRecordKeyQuoting, vh.CauseReplacementChar,
	vh.CauseExtValueNoTextForm, vh.CauseValueExtensionMemberParens, vh.CauseNegatedLiteralRerendered}

type c08Result struct {
	OK     bool
	Kind   string // failure kind
	Detail string
	Text   string     // first rendering
	Q      *ast.Policy // reparsed policy
}

func evalShow(n ast.IsNode, env eval.Env) (s string) {
	if pn := vh.Protect(func() { v, err := eval.Eval(n, env); s = vh.ShowRes(v, err) }); pn != nil {
		s = "err panic"
	}
	return
}

// sameEval compares two nodes on env.  The evaluator is a function of (expression, environment) — results
// used to be compared as sets because a record literal with two failing entries reported whichever error
// the Go map met first (C14); since `fix: evaluate the entries of a record literal in key order` they are
// compared directly.
func sameEval(a, b ast.IsNode, env eval.Env) (bool, string, string) {
	x, y := evalShow(a, env), evalShow(b, env)
	return x == y, x, y
}

func scopesShow(p *ast.Policy) string {
	return vh.ShowScopeC07(p.Principal) + " " + vh.ShowScopeC07(p.Action) + " " + vh.ShowScopeC07(p.Resource)
}

func annsShow(p *ast.Policy) string {
	var xs []string
	for _, a := range p.Annotations {
		xs = append(xs, vh.Hex(string(a.Key))+"="+vh.Hex(string(a.Value)))
	}
	return strings.Join(xs, ",")
}

// c08Oracle is the property, checked on the implementation for one policy.
func c08Oracle(p *ast.Policy, envs []vh.EnvEnc) (res c08Result) {
	var pol *cedar.Policy
	var text []byte
	if pn := vh.Protect(func() {
		pol = cedar.NewPolicyFromAST((*publicast.Policy)(p))
		text = pol.MarshalCedar()
	}); pn != nil {
		return c08Result{Kind: "marshal-panics", Detail: fmt.Sprint(pn)}
	}
	res.Text = string(text)
	var q cedar.Policy
	var err error
	if pn := vh.Protect(func() { err = q.UnmarshalCedar(text) }); pn != nil {
		res.Kind, res.Detail = "reparse-panics", fmt.Sprint(pn)
		return
	}
	if err != nil {
		res.Kind, res.Detail = "rendering-does-not-parse", err.Error()
		return
	}
	qa := (*ast.Policy)(q.AST())
	res.Q = qa
	if qa.Effect != p.Effect {
		res.Kind = "effect-differs"
		return
	}
	if annsShow(qa) != annsShow(p) {
		res.Kind, res.Detail = "annotations-differ", annsShow(p)+" vs "+annsShow(qa)
		return
	}
	if scopesShow(qa) != scopesShow(p) {
		res.Kind, res.Detail = "scope-differs", scopesShow(p)+" vs "+scopesShow(qa)
		return
	}
	if len(qa.Conditions) != len(p.Conditions) {
		res.Kind = "condition-count-differs"
		return
	}
	for i := range p.Conditions {
		if p.Conditions[i].Condition != qa.Conditions[i].Condition {
			res.Kind = "condition-kind-differs"
			return
		}
	}
	for ei, e := range envs {
		for i := range p.Conditions {
			if ok, x, y := sameEval(p.Conditions[i].Body, qa.Conditions[i].Body, e.Env); !ok {
				res.Kind, res.Detail = "evaluates-differently", fmt.Sprintf("condition %d: %s vs %s (environment %d: %s)", i, x, y, ei, c08CtxShow(e.Env))
				return
			}
		}
		if ok, x, y := sameEval(eval.PolicyToNode(p).AsIsNode(), eval.PolicyToNode(qa).AsIsNode(), e.Env); !ok {
			res.Kind, res.Detail = "policy-evaluates-differently", x+" vs "+y
			return
		}
	}
	// the reparsed tree is the original tree up to the documented normalisations (c08_chains.go): in particular the
	// nesting of operators is the same (checked arithmetic is not associative: a regrouping changes the meaning on
	// operands that the environments above may not happen to contain)
	for i := range p.Conditions {
		if d := c08StructDiff(p.Conditions[i].Body, qa.Conditions[i].Body); d != "" {
			res.Kind, res.Detail = "structure-differs", fmt.Sprintf("condition %d %s", i, d)
			return
		}
	}
	var text2 []byte
	if pn := vh.Protect(func() { text2 = q.MarshalCedar() }); pn != nil {
		res.Kind, res.Detail = "second-marshal-panics", fmt.Sprint(pn)
		return
	}
	if !bytes.Equal(text, text2) {
		res.Kind, res.Detail = "second-rendering-differs", string(text2)
		return
	}
	res.OK = true
	return
}

// c08Texts: hand-written policies covering every syntactic form (source "text").
var c08Texts = []string{
	`permit(principal, action, resource);`,
	`forbid ( principal , action , resource , ) ;`,
	`@id("x") @if("kw") @in("y\n\"z\"") permit(principal == User::"a", action == Action::"r", resource == NS::Folder::"f");`,
	`permit(principal in Group::"g", action in [Action::"a", Action::"b",], resource in A::B::C::"x") when { true } unless { false };`,
	`permit(principal is User, action in [], resource is NS::Folder in NS::Folder::"top");`,
	`permit(principal is User in Group::"g", action in Action::"all", resource);`,
	`permit(principal, action, resource) when { 1 + 2 * 3 - 4 == -5 && !(1 < 2) || 3 >= 2 };`,
	`permit(principal, action, resource) when { (1 + 2) * 3 - (4 - 5) - 6 };`,
	`permit(principal, action, resource) when { -(5) + --5 + -(-5) + - - - 1 };`,
	`permit(principal, action, resource) when { !!true && !!!false };`,
	`permit(principal, action, resource) when { (-5).foo has bar || (-1).getTag("x") };`,
	`permit(principal, action, resource) when { -9223372036854775808 < 9223372036854775807 };`,
	`permit(principal, action, resource) when { if if true then false else true then 1 else if false then 2 else 3 };`,
	`permit(principal, action, resource) when { (if true then 1 else 2) + 3 };`,
	`permit(principal, action, resource) when { principal has a.b.c && context has "a b" && resource has "if" };`,
	`permit(principal, action, resource) when { principal.a.b["c d"].e["if"]["true"] };`,
	`permit(principal, action, resource) when { context.s like "a*b\*c\"\\\u{41}\x41\n" };`,
	`permit(principal, action, resource) when { "\0\t\r\n\'\"\\\x7f\u{0}\u{10FFFF}\u{e9}é😀" == "x" };`,
	`permit(principal, action, resource) when { [1, "a", User::"u", [2, 3,], {a: 1, "b c": [], if_: {}}, ] };`,
	`permit(principal, action, resource) when { {"a": 1, b: 2,}.a + {}["x"] };`,
	`permit(principal, action, resource) when { [1,2].contains(1) && [1].containsAll([1]) && [].containsAny([]) && [].isEmpty() };`,
	`permit(principal, action, resource) when { principal.hasTag("t") && principal.getTag("t") == 1 };`,
	`permit(principal, action, resource) when { ip("10.0.0.1").isInRange(ip("10.0.0.0/8")) && ip("::1").isLoopback() };`,
	`permit(principal, action, resource) when { decimal("1.5").lessThan(decimal("2.0")) && decimal("1.0").greaterThanOrEqual(decimal("-1.0")) };`,
	`permit(principal, action, resource) when { datetime("2024-01-01").offset(duration("1d")).toDate() == datetime("2024-01-02") };`,
	`permit(principal, action, resource) when { datetime("2024-01-01T00:00:00Z").durationSince(datetime("2023-01-01")).toDays() > 0 };`,
	`permit(principal, action, resource) when { principal is User && principal is NS::Folder in resource && (principal is User) == true };`,
	`permit(principal, action, resource) when { principal in resource && principal in [resource, action] && (1 in 2) in 3 };`,
	`permit(principal, action, resource) when { principal::"x" == action::"y" };`,
	`permit(principal, action, resource) when { context.contains && context.isEmpty };`,
	"permit(principal, // c1\n action, /* c2 */ resource) /* c3 // */ when { /**/ 1 /* * */ < // x\n 2 };",
	`permit(principal, action, resource) when { (1 < 2) == (3 > 4) && (1 != 2) != (5 <= 6) };`,
	`permit(principal, action, resource) when { 1 - 2 - 3 + 4 * 5 * 6 - (7 - (8 - 9)) };`,
	`permit(principal, action, resource) when { true || false && true || (false || true) && (true && false) };`,
	`permit(principal, action, resource) when { ip() || decimal("1.0", 2) || context.isIpv4(1, 2) };`,
	`permit(principal, action, resource) when { context.x like "*" || context.x like "" || context.x like "**a**" };`,
}

func runC08(c *vh.Ctx) {
	c.Res.Rule = "policies from three sources (builder: every (parent kind, operand position, child kind) pairing over 42 node/value kinds, random syntactic trees, type-directed trees; text: hand-written corpus + reparsed policies; JSON: MarshalJSON→UnmarshalJSON), oracle per policy: MarshalCedar→UnmarshalCedar succeeds, effect/annotations/scope equal, every condition and the whole policy evaluate identically (value or error kind) on 8-10 environments, reparsed tree = original tree up to the documented normalisations (operator nesting included), second MarshalCedar byte-identical; arithmetic chains: every parenthesisation of +,-,* sequences of length 3 and 4, with unary minus, over overflow-sensitive literals and context attributes (operands chosen with an independent checked-arithmetic evaluator so that the tree differs from its mis-parenthesisations; own boundary environments), built as ASTs and from fully parenthesised text; PolicyList/PolicySet/Encoder→Decoder sequences; one Encoder over writers failing at the k-th Write (once, twice, for ever, short writes) with retry/skip histories: bytes accepted per Encode call = the policy's rendering (nil) or a prefix of it (error), accepted stream decodes to exactly the policies whose Encode returned nil; model marshaller bytes+tokens and model parse∘marshal vs Go; model Value.MarshalCedar vs Go's on generated NodeValue contents (scalars, extension values at their boundaries, nested sets and records, colliding hashes, keys over every escape class): bytes exactly, sets after bringing Go's real output into ascending member-text order, and the model parser's reading of that text vs Go's (op marshal-value); distinct = distinct first rendering; non-trivial = policy has a condition with at least one operator"
	g := vh.NewGen(c.Rng)
	// a world without the zero EntityUID (`::""` has no spelling in Cedar syntax)
	w := &vh.World{}
	for _, u := range g.World.UIDs {
		if !u.IsZero() {
			w.UIDs = append(w.UIDs, u)
		}
	}
	g.World = w
	sg := &vh.SynGen{R: c.Rng, Values: true}
	envs := g.EnvPool(c.N(8, 10))
	// environments whose context attributes n, m, k, j (the long-typed attributes the generators use) hold
	// overflow-sensitive values: 0, ±1, 2, MaxInt64, MinInt64 and neighbours
	for i, n := 0, c.N(4, 8); i < n; i++ {
		vs := make([]int64, 4)
		for j := range vs {
			vs[j] = c08Neighbours[c.Rng.Intn(len(c08Neighbours))]
		}
		envs = append(envs, c08CtxEnv(envs[i].Env, vs))
	}

	type srcPolicy struct {
		src  string
		p    *ast.Policy
		tag  string
		envs []vh.EnvEnc // environments built for this policy, in addition to the pool
	}
	var all []srcPolicy
	add := func(src, tag string, p *ast.Policy) { all = append(all, srcPolicy{src: src, p: p, tag: tag}) }

	// (1) builder: exhaustive pairings, random syntactic trees, type-directed trees
	sg.Pairings(c.N(1, 4), func(parent vh.SynKind, slot int, child vh.SynKind, n ast.IsNode) {
		add("builder", fmt.Sprintf("pair:%v/%d/%v", parent, slot, child), sg.PolicyWith(n))
	})
	for i, n := 0, c.N(2200, 120000); i < n; i++ {
		add("builder", "random", sg.Policy(1+c.Rng.Intn(4)))
	}
	for i, n := 0, c.N(1000, 60000); i < n; i++ {
		add("builder", "typed", g.Policy(1+c.Rng.Intn(4)))
	}
	// negative literals in every receiver position, explicitly
	for _, k := range []vh.SynKind{vh.KAccess, vh.KIsEmpty, vh.KContains, vh.KContainsAll, vh.KContainsAny, vh.KGetTag, vh.KHasTag, vh.KCallMethod, vh.KHas, vh.KLike, vh.KIs, vh.KIsIn, vh.KNeg, vh.KNot, vh.KMul, vh.KSub, vh.KAdd} {
		for r := 0; r < 3; r++ {
			n := sg.Build(k, func(i int) ast.IsNode {
				if i == 0 {
					return sg.Leaf(vh.KNegLong)
				}
				return sg.RandLeaf()
			})
			add("builder", "neglit-first-operand:"+k.String(), sg.PolicyWith(n))
			add("builder", "neg-of:"+k.String(), sg.PolicyWith(sg.Build(vh.KNeg, func(int) ast.IsNode {
				return sg.Build(k, func(i int) ast.IsNode {
					if i == 0 {
						return sg.Leaf(vh.KLong)
					}
					return sg.RandLeaf()
				})
			})))
		}
	}
	// corner: `-`(0) as a receiver is written `(-0).foo` and read back as `0.foo` (the `-0` instability, not a receiver defect)
	add("builder", "corner:neg-zero-receiver", sg.PolicyWith(ast.NodeTypeAccess{StrOpNode: ast.StrOpNode{
		Arg: ast.NodeTypeNegate{UnaryNode: ast.UnaryNode{Arg: ast.NodeValue{Value: types.Long(0)}}}, Value: "foo"}}))
	add("builder", "corner:neg-one-receiver", sg.PolicyWith(ast.NodeTypeAccess{StrOpNode: ast.StrOpNode{
		Arg: ast.NodeTypeNegate{UnaryNode: ast.UnaryNode{Arg: ast.NodeValue{Value: types.Long(1)}}}, Value: "foo"}}))
	// corner: method-style extension call without receiver (programmatic only)
	add("builder", "corner:method-no-receiver", sg.PolicyWith(ast.NodeTypeExtensionCall{Name: "isIpv4"}))

	// arithmetic chains: every parenthesisation of operator sequences of length 3 and 4, with unary minus, over
	// overflow-sensitive operands (literals and context attributes with their own environments) — c08_chains.go
	for _, ch := range c08Chains(c, sg, envs) {
		all = append(all, srcPolicy{src: ch.src, p: ch.p, tag: ch.tag, envs: ch.envs})
	}

	// (2) text
	for _, t := range c08Texts {
		var pol cedar.Policy
		if err := pol.UnmarshalCedar([]byte(t)); err != nil {
			c.Report(vh.Finding{Class: "corpus-text-rejected", What: "hand-written valid policy rejected: " + t + ": " + err.Error(), Check: "oracle", Op: "UnmarshalCedar", Input: t})
			continue
		}
		add("text", "corpus", (*ast.Policy)(pol.AST()))
	}

	nBuilder := len(all)
	// (3) JSON: policies decoded from the JSON rendering of builder policies
	for i := 0; i < nBuilder; i++ {
		if c.Rng.Intn(3) != 0 {
			continue
		}
		p := all[i].p
		if vh.ExpressibleC0708(p) != "" {
			continue
		}
		var dec cedar.Policy
		ok := false
		vh.Protect(func() {
			b, err := cedar.NewPolicyFromAST((*publicast.Policy)(p)).MarshalJSON()
			if err != nil {
				return
			}
			if err := dec.UnmarshalJSON(b); err != nil {
				return
			}
			ok = true
		})
		if !ok {
			c.Dist("json-codec-declined")
			continue
		}
		all = append(all, srcPolicy{src: "json", p: (*ast.Policy)(dec.AST()), tag: all[i].tag, envs: all[i].envs})
	}
	for _, js := range []string{
		`{"effect":"permit","principal":{"op":"All"},"action":{"op":"All"},"resource":{"op":"All"},"conditions":[{"kind":"when","body":{"isIpv4":[]}}]}`,
		`{"effect":"permit","principal":{"op":"All"},"action":{"op":"All"},"resource":{"op":"All"},"conditions":[{"kind":"when","body":{"Value":[1,-2,{"a":[-3]}]}}]}`,
		`{"effect":"forbid","principal":{"op":"==","entity":{"type":"User","id":"a\"b"}},"action":{"op":"in","entities":[{"type":"Action","id":"x"}]},"resource":{"op":"is","entity_type":"Doc"},"conditions":[{"kind":"unless","body":{".":{"left":{"Value":-5},"attr":"foo"}}}]}`,
		`{"effect":"permit","principal":{"op":"All"},"action":{"op":"All"},"resource":{"op":"All"},"conditions":[{"kind":"when","body":{"Value":{"\u0007":1}}}]}`,
	} {
		var dec cedar.Policy
		var err error
		if pn := vh.Protect(func() { err = dec.UnmarshalJSON([]byte(js)) }); pn != nil || err != nil {
			c.Dist("json-codec-declined")
			continue
		}
		add("json", "corpus", (*ast.Policy)(dec.AST()))
	}

	b := &vh.Batch{}
	var fragLines []int
	var good []*ast.Policy // policies that pass (used for the list / set / stream checks)
	nText := 0
	for idx := 0; idx < len(all); idx++ {
		sp := all[idx]
		c.Dist("src:" + sp.src)
		if r := vh.ExpressibleC0708(sp.p); r != "" {
			c.Dist("not-expressible:" + r)
			if r == vh.ReasonMethodWithoutReceiver {
				// outside the grammar, but MarshalCedar must not panic on it (it writes the call in function style)
				c.Res.OracleChecks++
				var txt []byte
				if pn := vh.Protect(func() { txt = mkPol(sp.p).MarshalCedar() }); pn != nil {
					enc, _ := json.Marshal(vh.EncPolicy(sp.p))
					c.Report(vh.Finding{Class: "method-call-without-receiver-panics", What: fmt.Sprintf("MarshalCedar panics on a method-style call without receiver (%s policy, %s): %v", sp.src, sp.tag, pn),
						Check: "oracle", Op: "MarshalCedar", Input: json.RawMessage(enc), Expected: "a rendering", Actual: fmt.Sprint(pn)})
				} else if !bytes.Contains(txt, []byte("()")) {
					enc, _ := json.Marshal(vh.EncPolicy(sp.p))
					c.Report(vh.Finding{Class: "method-call-without-receiver-rendering", What: fmt.Sprintf("expected a function-style rendering `f()`, got %q", txt),
						Check: "oracle", Op: "MarshalCedar", Input: json.RawMessage(enc)})
				}
			}
			continue
		}
		penvs := envs
		if len(sp.envs) > 0 {
			penvs = append(append([]vh.EnvEnc(nil), envs...), sp.envs...)
		}
		passes := func(p *ast.Policy) bool { return c08Oracle(p, penvs).OK }
		res := c08Oracle(sp.p, penvs)
		c.Res.OracleChecks++
		key := res.Text
		if key == "" {
			key = fmt.Sprint(idx)
		}
		nontrivial := false
		for _, cd := range sp.p.Conditions {
			if _, isLit := cd.Body.(ast.NodeValue); !isLit {
				if _, isVar := cd.Body.(ast.NodeTypeVariable); !isVar {
					nontrivial = true
				}
			}
		}
		c.Count(key, nontrivial)
		if strings.HasPrefix(sp.tag, "pair:") || strings.HasPrefix(sp.tag, "neg") || strings.HasPrefix(sp.tag, "chain-") {
			c.Dist("explicit-" + strings.SplitN(sp.tag, ":", 2)[0])
		}
		if res.OK {
			c.Dist("oracle:ok")
			if len(good) < 4000 {
				good = append(good, sp.p)
			}
			if idx%40 == 0 {
				c.Sample(map[string]any{"source": sp.src, "text": res.Text})
			}
			// a policy that was parsed from text is itself a new source: "parsed from text"
			if sp.src == "builder" && nText < c.N(1500, 40000) && res.Q != nil {
				nText++
				all = append(all, srcPolicy{src: "text", p: res.Q, tag: "reparsed", envs: sp.envs})
			}
		} else {
			c.Dist("oracle:" + res.Kind)
			if os.Getenv("C08_DEBUG_KIND") == res.Kind {
				fmt.Fprintf(os.Stderr, "DEBUG %s [%s %s] %q\n  text: %q\n", res.Kind, sp.src, sp.tag, res.Detail, res.Text)
			}
			class, explained := vh.ClassifyByRepair(sp.p, c08Causes, passes)
			if !explained {
				class = "unexplained:" + res.Kind
				if os.Getenv("C0708_DEBUG") != "" {
					fmt.Fprintf(os.Stderr, "UNEXPLAINED %s %q\n  text: %q\n", res.Kind, res.Detail, res.Text)
					vh.ClassifyTrace = func(cause string, changed bool, q *ast.Policy) {
						r := c08Oracle(q, penvs)
						fmt.Fprintf(os.Stderr, "  after %s (changed=%v): ok=%v %s %q\n", cause, changed, r.OK, r.Kind, r.Detail)
					}
					vh.ClassifyByRepair(sp.p, c08Causes, passes)
					vh.ClassifyTrace = nil
				}
			}
			enc, _ := json.Marshal(vh.EncPolicy(sp.p))
			c.Report(vh.Finding{Class: class, What: fmt.Sprintf("%s (%s policy, %s): rendering %q: %s %s", class, sp.src, sp.tag, res.Text, res.Kind, res.Detail),
				Check: "oracle", Op: "MarshalCedar→UnmarshalCedar", Input: json.RawMessage(enc), Expected: "round trip", Actual: res.Kind + ": " + res.Detail})
		}
		// correspondence of the model marshaller (bytes + tokens) and of model parse∘marshal
		if res.Text != "" && (idx%2 == 0 || sp.src != "builder") {
			toks, err := verifhooks.C0708Tokenize([]byte(res.Text))
			if err == nil {
				enc := vh.EncPolicy(sp.p)
				b.Add("marshal", map[string]any{"policy": enc, "tokens": vh.EncTokensC07(toks)}, "text="+vh.Hex(res.Text)+" toks=same", sp.src)
				impl := "err"
				if res.Q != nil {
					impl = "ok " + vh.ShowPolicyC07(res.Q, false)
				}
				b.Add("marshal-parse", map[string]any{"policy": enc}, impl, sp.src)
				fragLines = append(fragLines, b.Add("fragment", map[string]any{"policy": enc}, "", "fragment"))
			}
		}
	}

	c08Containers(c, good)
	c08EncoderFailures(c, good) // the Encoder over failing writers — c08_encoder.go
	valueFragLines := c08Values(c, g, sg, b)

	ds, model, err := c.Correspond(b)
	for _, l := range fragLines {
		if err == nil && l < len(model) {
			for _, f := range strings.Fields(model[l]) {
				if strings.HasPrefix(f, "go=") || strings.HasPrefix(f, "gov=") {
					c.Dist("proved-domain:" + f)
				}
			}
		}
	}
	for _, l := range valueFragLines {
		if err == nil && l < len(model) {
			c.Dist("value-proved-domain:" + model[l])
		}
	}
	if err != nil {
		c.Report(vh.Finding{Class: "driver-failure", What: err.Error(), Check: "correspondence", NoInput: true})
		return
	}
	for _, d := range ds {
		c.Report(vh.Finding{Class: "model-mismatch:" + d.Line.Op, What: fmt.Sprintf("%s: model %.200q vs implementation %.200q", d.Line.Op, d.Model, d.Line.Impl),
			Check: "correspondence", Op: d.Line.Op, Input: d.Line.Payload(), Expected: d.Model, Actual: d.Line.Impl, NoInput: true})
	}
}

// canonValueTextC08 brings the text types.Value.MarshalCedar wrote into the canonical member order used by the model
// op marshal-value: the member texts of every set in ascending byte order (Go writes them in hash-slot order).
// Nothing else is changed: the text is cut at the token boundaries Go's own scanner finds and put together again with
// the separators `, ` and `:`; rebuilding it WITHOUT sorting must reproduce the original bytes, otherwise an error is
// returned (so the framing `[`, `, `, `]`, `{`, `:`, `}` written by Go is compared byte for byte as well).
func canonValueTextC08(text []byte) (string, error) {
	toks, err := verifhooks.C0708Tokenize(text)
	if err != nil {
		return "", fmt.Errorf("scanner: %w", err)
	}
	pos := 0
	peek := func() (string, int) {
		if pos < len(toks) && toks[pos].Type != 0 {
			return toks[pos].Text, toks[pos].Type
		}
		return "", 0
	}
	var parse func(sorted bool) (string, error)
	parse = func(sorted bool) (string, error) {
		t, _ := peek()
		switch t {
		case "[":
			pos++
			var ms []string
			if x, _ := peek(); x == "]" {
				pos++
				return "[]", nil
			}
			for {
				m, err := parse(sorted)
				if err != nil {
					return "", err
				}
				ms = append(ms, m)
				x, _ := peek()
				pos++
				if x == "," {
					continue
				}
				if x == "]" {
					break
				}
				return "", fmt.Errorf("set: unexpected %q", x)
			}
			if sorted {
				sort.Strings(ms)
			}
			return "[" + strings.Join(ms, ", ") + "]", nil
		case "{":
			pos++
			var es []string
			if x, _ := peek(); x == "}" {
				pos++
				return "{}", nil
			}
			for {
				k, ty := peek()
				if ty != 4 {
					return "", fmt.Errorf("record: key %q is not a string token", k)
				}
				pos++
				if x, _ := peek(); x != ":" {
					return "", fmt.Errorf("record: expected ':' after key, got %q", x)
				}
				pos++
				v, err := parse(sorted)
				if err != nil {
					return "", err
				}
				es = append(es, k+":"+v)
				x, _ := peek()
				pos++
				if x == "," {
					continue
				}
				if x == "}" {
					break
				}
				return "", fmt.Errorf("record: unexpected %q", x)
			}
			return "{" + strings.Join(es, ", ") + "}", nil
		case "":
			return "", fmt.Errorf("unexpected end")
		}
		var sb strings.Builder
		depth := 0
		for {
			x, _ := peek()
			if x == "" || (depth == 0 && (x == "," || x == "]" || x == "}")) {
				break
			}
			if x == "(" {
				depth++
			}
			if x == ")" {
				depth--
			}
			sb.WriteString(x)
			pos++
		}
		if sb.Len() == 0 {
			return "", fmt.Errorf("empty scalar")
		}
		return sb.String(), nil
	}
	plain, err := parse(false)
	if err != nil {
		return "", err
	}
	if x, _ := peek(); x != "" || plain != string(text) {
		return "", fmt.Errorf("rebuilding the text from its tokens gives %q", plain)
	}
	pos = 0
	return parse(true)
}

// c08Values: correspondence of the model of types.Value.MarshalCedar on the content of NodeValues (scalars, sets,
// records, extension values): bytes up to set member order (exact bytes for set-free values and for sets with at most
// one member), and the model parser's reading of the text vs Go's.  Returns the batch lines of op value-fragment.
func c08Values(c *vh.Ctx, g *vh.Gen, sg *vh.SynGen, b *vh.Batch) []int {
	var vals []types.Value
	vals = append(vals, vh.ExtValuesC08()...)
	vals = append(vals, vh.CollidingValues()...)
	vals = append(vals, types.NewSet(vh.CollidingValues()...), types.NewSet(), types.NewRecord(types.RecordMap{}),
		types.NewSet(types.NewSet(), types.NewSet(types.NewSet())),
		types.NewSet(types.NewSet(types.Long(2), types.Long(1)), types.NewSet(types.Long(1), types.Long(3))),
		types.NewRecord(types.RecordMap{"a\"b": types.Long(1), "": types.NewSet(types.Long(-1)), "\a": types.String("\a"), "é*": types.Boolean(true), "if": types.NewRecord(types.RecordMap{"\x00": types.Long(0)})}))
	for _, ev := range vh.ExtValuesC08() {
		vals = append(vals, types.NewSet(ev), types.NewSet(ev, types.Long(1), types.String("x")), types.NewRecord(types.RecordMap{"k": ev}))
	}
	for i, n := 0, c.N(2500, 60000); i < n; i++ {
		switch i % 3 {
		case 0:
			vals = append(vals, sg.ValueC08(c.Rng.Intn(4)))
		case 1:
			vals = append(vals, sg.ValueC08(1+c.Rng.Intn(2)))
		default:
			vals = append(vals, g.ValueC13(c.Rng.Intn(3), false))
		}
	}
	var fragLines []int
	for _, v := range vals {
		// a value with an entity type that is no grammar path (or invalid UTF-8) has no Cedar text form
		if r := vh.ExpressibleC0708(&ast.Policy{Effect: ast.EffectPermit, Principal: ast.ScopeTypeAll{}, Action: ast.ScopeTypeAll{}, Resource: ast.ScopeTypeAll{},
			Conditions: []ast.ConditionType{{Condition: ast.ConditionWhen, Body: ast.NodeValue{Value: v}}}}); r != "" {
			c.Dist("value:not-expressible:" + r)
			continue
		}
		var text []byte
		if pn := vh.Protect(func() { text = v.MarshalCedar() }); pn != nil {
			c.Report(vh.Finding{Class: "value-marshal-panics", What: fmt.Sprintf("Value.MarshalCedar panics: %v", pn), Check: "oracle", Op: "Value.MarshalCedar", Input: vh.EncValue(v)})
			continue
		}
		c.Res.OracleChecks++
		ctext, err := canonValueTextC08(text)
		if err != nil {
			c.Report(vh.Finding{Class: "value-rendering-shape", What: fmt.Sprintf("Value.MarshalCedar output %q is not `[m, …]` / `{\"k\":v, …}` / a scalar: %v", text, err),
				Check: "oracle", Op: "Value.MarshalCedar", Input: vh.EncValue(v), Actual: string(text)})
			continue
		}
		kind := "scalar"
		switch v.(type) {
		case types.Set:
			kind = "set"
		case types.Record:
			kind = "record"
		case types.Decimal, types.Datetime, types.Duration, types.IPAddr:
			kind = "extension"
		}
		c.Dist("value:" + kind)
		if ctext != string(text) {
			c.Dist("value:go-order-differs-from-canonical")
		}
		c.Count("value:"+string(text), kind != "scalar")
		parse := "err"
		var pol cedar.Policy
		var perr error
		if pn := vh.Protect(func() { perr = pol.UnmarshalCedar([]byte("permit(principal,action,resource) when { " + ctext + " };")) }); pn == nil && perr == nil {
			if a := (*ast.Policy)(pol.AST()); len(a.Conditions) == 1 {
				parse = "ok " + vh.ShowExprC07(a.Conditions[0].Body)
			}
		}
		enc := vh.EncValue(v)
		b.Add("marshal-value", map[string]any{"value": enc}, "ctext="+vh.Hex(ctext)+" parse="+parse, "value")
		fragLines = append(fragLines, b.Add("value-fragment", map[string]any{"value": enc}, "", "value-fragment"))
	}
	return fragLines
}

func mkPol(p *ast.Policy) *cedar.Policy { return cedar.NewPolicyFromAST((*publicast.Policy)(p)) }

// c08Containers: "rendering a list or set of policies parses back to the same policies in the documented order".
func c08Containers(c *vh.Ctx, good []*ast.Policy) {
	if len(good) == 0 {
		return
	}
	fail := func(class, what string, input any) {
		c.Report(vh.Finding{Class: class, What: what, Check: "oracle", Op: "containers", Input: input})
	}
	reparsedShow := func(p *ast.Policy) string { // what the policy looks like after its own round trip
		var q cedar.Policy
		if err := q.UnmarshalCedar(mkPol(p).MarshalCedar()); err != nil {
			return "err"
		}
		return vh.ShowPolicyC07((*ast.Policy)(q.AST()), false)
	}
	rounds := c.N(150, 5000)
	for r := 0; r < rounds; r++ {
		n := c.Rng.Intn(6)
		var ps []*ast.Policy
		for i := 0; i < n; i++ {
			ps = append(ps, good[c.Rng.Intn(len(good))])
		}
		var want []string
		for _, p := range ps {
			want = append(want, reparsedShow(p))
		}
		// PolicyList
		var pl cedar.PolicyList
		for _, p := range ps {
			pl = append(pl, mkPol(p))
		}
		doc := pl.MarshalCedar()
		got, err := cedar.NewPolicyListFromBytes("f.cedar", doc)
		c.Res.OracleChecks++
		c.Count("list:"+string(doc), n > 1)
		if err != nil {
			fail("list-does-not-parse", fmt.Sprintf("PolicyList.MarshalCedar does not parse: %v: %q", err, doc), string(doc))
			continue
		}
		if len(got) != n {
			fail("list-length-differs", fmt.Sprintf("PolicyList of %d policies parses back to %d: %q", n, len(got), doc), string(doc))
			continue
		}
		for i, q := range got {
			qa := (*ast.Policy)(q.AST())
			if s := vh.ShowPolicyC07(qa, false); s != want[i] {
				fail("list-element-differs", fmt.Sprintf("policy %d of a list: %s vs %s", i, s, want[i]), string(doc))
			}
			if qa.Position.Filename != "f.cedar" || qa.Position.Offset < 0 || qa.Position.Offset > len(doc) || !bytes.HasPrefix(doc[qa.Position.Offset:], pl[i].MarshalCedar()) {
				fail("list-position-wrong", fmt.Sprintf("policy %d of a list: position %+v does not point at its text", i, qa.Position), string(doc))
			}
		}
		if !bytes.Equal(got.MarshalCedar(), doc) {
			fail("list-second-rendering-differs", "PolicyList re-render differs", string(doc))
		}
		// PolicySet: MarshalCedar in lexicographic id order
		ids := []string{"policy0", "policy1", "policy2", "policy10", "a", "b", "B", "", "é", "policy", "z9"}
		c.Rng.Shuffle(len(ids), func(i, j int) { ids[i], ids[j] = ids[j], ids[i] })
		set := cedar.NewPolicySet()
		byID := map[string]*ast.Policy{}
		for i, p := range ps {
			set.Add(cedar.PolicyID(ids[i]), mkPol(p))
			byID[ids[i]] = p
		}
		var sorted []string
		for id := range byID {
			sorted = append(sorted, id)
		}
		sort.Strings(sorted)
		sdoc := set.MarshalCedar()
		sgot, err := cedar.NewPolicyListFromBytes("s.cedar", sdoc)
		c.Res.OracleChecks++
		if err != nil || len(sgot) != len(sorted) {
			fail("set-does-not-parse", fmt.Sprintf("PolicySet.MarshalCedar: err=%v len=%d want %d: %q", err, len(sgot), len(sorted), sdoc), string(sdoc))
		} else {
			for i, id := range sorted {
				if s := vh.ShowPolicyC07((*ast.Policy)(sgot[i].AST()), false); s != reparsedShow(byID[id]) {
					fail("set-order-or-element-differs", fmt.Sprintf("PolicySet.MarshalCedar position %d should be policy %q", i, id), string(sdoc))
				}
			}
		}
		// NewPolicySetFromBytes: ids policy<i> in document order
		pset, err := cedar.NewPolicySetFromBytes("f.cedar", doc)
		if err != nil {
			fail("set-from-bytes-fails", err.Error(), string(doc))
		} else {
			cnt := 0
			for range pset.All() {
				cnt++
			}
			if cnt != n {
				fail("set-from-bytes-count", fmt.Sprintf("%d policies, want %d", cnt, n), string(doc))
			}
			for i := 0; i < n; i++ {
				q := pset.Get(cedar.PolicyID(fmt.Sprintf("policy%d", i)))
				if q == nil || vh.ShowPolicyC07((*ast.Policy)(q.AST()), false) != want[i] {
					fail("set-from-bytes-ids", fmt.Sprintf("policy%d is not the %d-th policy of the document", i, i), string(doc))
				}
			}
		}
		// Encoder → Decoder
		var buf bytes.Buffer
		enc := cedar.NewEncoder(&buf)
		for _, p := range ps {
			if err := enc.Encode(mkPol(p)); err != nil {
				fail("encoder-error", err.Error(), nil)
			}
		}
		stream := append([]byte(nil), buf.Bytes()...)
		dec := cedar.NewDecoder(bytes.NewReader(stream))
		c.Res.OracleChecks++
		i := 0
		for {
			var q cedar.Policy
			err := dec.Decode(&q)
			if err == io.EOF {
				break
			}
			if err != nil {
				fail("decoder-error", fmt.Sprintf("Decoder fails on Encoder output: %v: %q", err, stream), string(stream))
				break
			}
			if i >= n || vh.ShowPolicyC07((*ast.Policy)(q.AST()), false) != want[i] {
				fail("stream-element-differs", fmt.Sprintf("Decoder policy %d differs", i), string(stream))
				break
			}
			i++
		}
		if i != n {
			fail("stream-length-differs", fmt.Sprintf("Decoder yields %d policies, Encoder wrote %d", i, n), string(stream))
		}
		// NewDecoder on the PolicyList document as well
		dec2 := cedar.NewDecoder(bytes.NewReader(doc))
		j := 0
		for {
			var q cedar.Policy
			if err := dec2.Decode(&q); err != nil {
				break
			}
			j++
		}
		if j != n {
			fail("decoder-on-list-differs", fmt.Sprintf("Decoder yields %d policies of a %d-policy list", j, n), string(doc))
		}
	}
	_ = types.String("")
}
