package main

// Generators of the C14 kinds `authz-unspecified` and `batch` (c14_batch.go).  Pure functions of the seed: no Go map
// is iterated while choosing.

import (
	"fmt"
	"math/rand"
	"strings"

	cedar "github.com/cedar-policy/cedar-go"
	"github.com/cedar-policy/cedar-go/types"
	"github.com/cedar-policy/cedar-go/x/exp/batch"
)

// the small world of these cases: U::"1" is complete, U::"2" has nothing, D::"1" holds values of the wrong type,
// D::"2" is complete; U::"ghost", U::"g2", D::"ghost", D::"g2" do not exist.
func c14BatchWorld() []c14Ent {
	u := types.NewEntityUID
	return []c14Ent{
		{UID: u("U", "1"), Parents: []types.EntityUID{u("U", "2")}, Attrs: types.NewRecord(types.RecordMap{"n": types.Long(1), "owner": u("U", "2")}), Tags: types.NewRecord(types.RecordMap{"t": types.Long(1)})},
		{UID: u("U", "2"), Attrs: types.NewRecord(nil), Tags: types.NewRecord(nil)},
		{UID: u("D", "1"), Parents: []types.EntityUID{u("U", "1")}, Attrs: types.NewRecord(types.RecordMap{"m": types.String("x"), "owner": types.Long(7)}), Tags: types.NewRecord(nil)},
		{UID: u("D", "2"), Attrs: types.NewRecord(types.RecordMap{"m": types.Long(2), "owner": u("U", "1")}), Tags: types.NewRecord(types.RecordMap{"t": types.Long(2)})},
		{UID: u("A", "a"), Attrs: types.NewRecord(types.RecordMap{"n": types.Long(0)}), Tags: types.NewRecord(nil)},
	}
}

func c14PolicyText(effect string, conds ...string) string {
	var sb strings.Builder
	sb.WriteString(effect + " (principal, action, resource)")
	for _, c := range conds {
		sb.WriteString("\nwhen { " + c + " }")
	}
	sb.WriteString(";\n")
	return sb.String()
}

// ---- authz-unspecified ----

// conditions over subject S (principal / resource) and the other part O; the first group applies getTag with a tag
// expression that is not a literal
func c14UnspecConds(S, O string) (nonLiteral, other []string) {
	nonLiteral = []string{
		S + `.getTag(context.k) == 1`,
		S + `.getTag(context.a.b) == 1`,
		S + `.getTag(context.a["b"]) == 1`,
		S + `.getTag(if context.f then "x" else "y") == 1`,
		S + `.getTag(` + O + `.getTag(context.k)) == 1`,
		`[` + S + `.getTag(context.k), 2].contains(1)`,
		`{x: ` + S + `.getTag(context.a.b)}.x == 1`,
		`context.f && ` + S + `.getTag(context.k) == 1`,
		`!(` + S + `.getTag(context.a.b) like "*")`,
	}
	other = []string{
		S + `.getTag("lit") == 1`,
		S + `.hasTag(context.k)`,
		S + `.hasTag("lit")`,
		S + ` has n`,
		S + `.n == 1`,
		S + `.owner.n == 1`,
		S + ` in U::"1"`,
		S + ` == ` + S,
		`context.n == 1`,
	}
	return
}

func c14GenUnspec(r *rand.Rand, idx int) *c14Case {
	var zero types.EntityUID
	req := cedar.Request{Principal: types.NewEntityUID("U", "1"), Action: types.NewEntityUID("A", "a"), Resource: types.NewEntityUID("D", "2"),
		Context: types.NewRecord(types.RecordMap{"k": types.String("t"), "a": types.NewRecord(types.RecordMap{"b": types.String("t")}), "f": types.Boolean(r.Intn(4) != 0), "n": types.Long(1)})}
	which := r.Intn(3) // 0: principal unspecified, 1: resource, 2: both
	if which != 1 {
		req.Principal = zero
	}
	if which != 0 {
		req.Resource = zero
	}
	isZero := map[string]bool{"principal": req.Principal == zero, "resource": req.Resource == zero}
	var sb strings.Builder
	labels := map[string]bool{}
	n := 5 + r.Intn(4)
	for k := 0; k < n; k++ {
		S, O := "principal", "resource"
		if r.Intn(2) == 0 {
			S, O = O, S
		}
		if k == 0 { // the first policy always has the favoured shape on an unspecified part
			if !isZero[S] {
				S, O = O, S
			}
		}
		nl, other := c14UnspecConds(S, O)
		eff := []string{"permit", "forbid"}[r.Intn(2)]
		var cond string
		if k == 0 || r.Intn(2) == 0 {
			cond = nl[r.Intn(len(nl))]
			if isZero[S] {
				labels["unspecified-gettag-nonliteral"] = true
			}
		} else {
			cond = other[r.Intn(len(other))]
			labels["unspecified-other-access"] = true
		}
		if r.Intn(4) == 0 {
			sb.WriteString(c14PolicyText(eff, "true", cond))
		} else {
			sb.WriteString(c14PolicyText(eff, cond))
		}
	}
	var ls []string
	for _, l := range []string{"unspecified-gettag-nonliteral", "unspecified-other-access"} {
		if labels[l] {
			ls = append(ls, l)
		}
	}
	return c14UnspecCase(fmt.Sprintf("unspec-%d", idx), c14UnspecInput{Text: sb.String(), Ents: c14BatchWorld(), Req: req}, ls)
}

// ---- batch: ties ----

func c14Pick[T any](r *rand.Rand, pool []T, k int) []T {
	xs := append([]T{}, pool...)
	r.Shuffle(len(xs), func(i, j int) { xs[i], xs[j] = xs[j], xs[i] })
	if k > len(xs) {
		k = len(xs)
	}
	return xs[:k]
}

// conditions whose two operands read two different variable-bearing parts and can BOTH fail
func c14DoubleErrConds(withCtxVar bool) (plain, isIn []string) {
	plain = []string{
		`principal.n + resource.m > 0`,
		`resource.m - principal.n == 0`,
		`principal.n < resource.m`,
		`resource.m * 2 >= principal.n`,
		`[principal.n, resource.m].contains(1)`,
		`{a: principal.n, b: resource.m}.a == 1`,
		`{b: principal.n, a: resource.m}.a == 1`,
		`principal.getTag("t") == resource.getTag("t")`,
		`principal.getTag(resource.m) == 1`,
		`principal.owner.n == resource.owner.n`,
		`principal.n == 1 || resource.m == 1`,
		`principal.n == 7 && resource.m == 1`,
		`if principal.n == 1 then resource.m == 2 else resource.m == 3`,
		`resource.m + principal.n > 0 && principal.n + resource.m > 0`,
	}
	if withCtxVar {
		plain = append(plain,
			`principal.n + context.x.n > 0`,
			`context.x.n + resource.m > 0`,
			`context.x.n < principal.n`,
			`[resource.m, context.x.n].contains(1)`)
	}
	isIn = []string{
		`principal in resource.owner`,
		`resource in principal.owner`,
		`principal is U in resource.owner`,
		`resource is D in principal.owner`,
		`principal is U in [resource.owner, principal.owner]`,
		`principal.owner is U in resource.owner`,
	}
	return
}

func c14GenBatchTie(r *rand.Rand, idx int) *c14Case {
	u := types.NewEntityUID
	names := c14Pick(r, []types.String{"a", "b", "p", "r", "zz", "V1", "é", "x10", "x9"}, 4)
	k := 1 + r.Intn(3) // the common number of values
	withCtxVar := r.Intn(3) == 0
	withActVar := r.Intn(4) == 0
	noTie := idx%6 == 5 // control cases: all counts differ
	labels := map[string]bool{}
	in := c14BatchInput{Ents: c14BatchWorld(), P: batch.Variable(names[0]), A: u("A", "a"), R: batch.Variable(names[1])}
	pk, rk := k, k
	if noTie {
		pk, rk = 1+r.Intn(2), 3
		withCtxVar, withActVar = false, false
	}
	var pv, rv []types.Value
	for _, x := range c14Pick(r, []types.EntityUID{u("U", "1"), u("U", "2"), u("U", "ghost"), u("U", "g2")}, pk) {
		pv = append(pv, x)
	}
	for _, x := range c14Pick(r, []types.EntityUID{u("D", "1"), u("D", "2"), u("D", "ghost"), u("D", "g2")}, rk) {
		rv = append(rv, x)
	}
	in.Vars = []c14BatchVar{{names[0], pv}, {names[1], rv}}
	ctx := types.RecordMap{"k": types.String("t"), "n": types.Long(1)}
	if withCtxVar {
		ctx["x"] = batch.Variable(names[2])
		in.Vars = append(in.Vars, c14BatchVar{names[2], c14Pick(r, []types.Value{types.NewRecord(types.RecordMap{"n": types.Long(1)}), types.NewRecord(nil), types.Long(3), types.String("s")}, k)})
	}
	if withActVar { // a third (fourth) variable with ANOTHER number of values: "fewest values first" still applies
		in.A = batch.Variable(names[3])
		in.Vars = append(in.Vars, c14BatchVar{names[3], []types.Value{u("A", "a"), u("A", "b"), u("A", "c"), u("A", "d")}[:k+1]})
	}
	in.C = types.NewRecord(ctx)
	r.Shuffle(len(in.Vars), func(i, j int) { in.Vars[i], in.Vars[j] = in.Vars[j], in.Vars[i] })
	plain, isIn := c14DoubleErrConds(withCtxVar)
	var sb strings.Builder
	n := 4 + r.Intn(4)
	for i := 0; i < n; i++ {
		eff := []string{"permit", "forbid"}[r.Intn(2)]
		switch {
		case i == 1 || r.Intn(4) == 0:
			sb.WriteString(c14PolicyText(eff, isIn[r.Intn(len(isIn))]))
			labels["batch-is-in-failing-rhs"] = true
		case r.Intn(6) == 0:
			sb.WriteString(c14PolicyText(eff, "true"))
		default:
			sb.WriteString(c14PolicyText(eff, plain[r.Intn(len(plain))]))
		}
	}
	in.Text = sb.String()
	var ls []string
	if in.tie() {
		ls = append(ls, "batch-tie-double-error")
	} else {
		ls = append(ls, "batch-no-tie")
	}
	if labels["batch-is-in-failing-rhs"] {
		ls = append(ls, "batch-is-in-failing-rhs")
	}
	return c14BatchCase(fmt.Sprintf("batch-tie-%d", idx), in, ls)
}

// ---- batch: sets with colliding members around a variable ----

// >= 2 members with the same hash (n as Long / Decimal / Datetime / Duration / Boolean), a few others, the variable
func c14CollidingAround(r *rand.Rand, variable types.Value) []types.Value {
	n := []int64{0, 1, 1, 1, 2, -1, 5}[r.Intn(7)]
	dec, _ := types.NewDecimal(n, -4)
	same := []types.Value{types.Long(n), dec, types.NewDatetimeFromMillis(n), types.NewDurationFromMillis(n)}
	if n == 0 || n == 1 {
		same = append(same, types.Boolean(n == 1), types.Boolean(n == 1)) // favour the Long / Boolean pair
	}
	var ms []types.Value
	for _, v := range c14Pick(r, same, 2+r.Intn(3)) {
		dup := false
		for _, w := range ms {
			dup = dup || v.Equal(w)
		}
		if !dup {
			ms = append(ms, v)
		}
	}
	if len(ms) < 2 {
		ms = []types.Value{types.Long(n), dec}
	}
	ms = append(ms, c14Pick(r, []types.Value{types.String("x"), types.Long(n + 1), types.Long(40), types.NewEntityUID("U", "1"), types.NewSet(types.Long(n))}, r.Intn(3))...)
	ms = append(ms, variable)
	r.Shuffle(len(ms), func(i, j int) { ms[i], ms[j] = ms[j], ms[i] })
	return ms
}

func c14GenBatchSet(r *rand.Rand, idx int) *c14Case {
	u := types.NewEntityUID
	names := c14Pick(r, []types.String{"x", "y", "a", "zz"}, 2)
	in := c14BatchInput{Ents: c14BatchWorld(), P: u("U", "1"), A: u("A", "a"), R: u("D", "2")}
	x := batch.Variable(names[0])
	ctx := types.RecordMap{"k": types.String("t"), "s": types.NewSet(c14CollidingAround(r, x)...)}
	second := false
	switch r.Intn(4) {
	case 0: // nested: a set inside the set holds the variable too
		inner := types.NewSet(c14CollidingAround(r, x)...)
		ctx["t"] = types.NewSet(append(c14CollidingAround(r, x), inner)...)
	case 1: // under a record
		ctx["r"] = types.NewRecord(types.RecordMap{"q": types.NewSet(c14CollidingAround(r, x)...), "z": types.Long(1)})
	case 2: // a second variable in another set
		ctx["t"] = types.NewSet(c14CollidingAround(r, batch.Variable(names[1]))...)
		second = true
	}
	in.C = types.NewRecord(ctx)
	k := 1 + r.Intn(3)
	in.Vars = []c14BatchVar{{names[0], c14Pick(r, []types.Value{types.String("v"), types.Long(1), types.Long(9), types.True, u("U", "2"), types.NewSet(types.Long(1))}, k)}}
	if second {
		in.Vars = append(in.Vars, c14BatchVar{names[1], c14Pick(r, []types.Value{types.String("w"), types.Long(0), types.False, u("D", "1")}, k)})
	}
	var sb strings.Builder
	for _, c := range c14Pick(r, []string{`context.s.contains(1)`, `context has s`, `context.s.containsAny([1, true, "v"])`, `context.k == "t"`, `context.s.contains(principal)`, `true`}, 3) {
		sb.WriteString(c14PolicyText([]string{"permit", "forbid"}[r.Intn(2)], c))
	}
	in.Text = sb.String()
	return c14BatchCase(fmt.Sprintf("batch-set-%d", idx), in, []string{"batch-set-collision-variable"})
}

// ---- batch: an unspecified principal / resource next to variables ----

func c14GenBatchUnspec(r *rand.Rand, idx int) *c14Case {
	u := types.NewEntityUID
	var zero types.EntityUID
	name := c14Pick(r, []types.String{"v", "r", "a"}, 1)[0]
	in := c14BatchInput{Ents: c14BatchWorld(), P: zero, A: u("A", "a"), R: batch.Variable(name),
		C: types.NewRecord(types.RecordMap{"k": types.String("t"), "a": types.NewRecord(types.RecordMap{"b": types.String("t")}), "f": types.True, "n": types.Long(1)})}
	S, O := "principal", "resource"
	if r.Intn(2) == 0 {
		in.P, in.R = batch.Variable(name), zero
		S, O = O, S
	}
	pool := []types.Value{u("D", "1"), u("D", "2"), u("D", "ghost")}
	if S == "resource" {
		pool = []types.Value{u("U", "1"), u("U", "2"), u("U", "ghost")}
	}
	in.Vars = []c14BatchVar{{name, c14Pick(r, pool, 1+r.Intn(3))}}
	nl, other := c14UnspecConds(S, O)
	var sb strings.Builder
	sb.WriteString(c14PolicyText("permit", nl[r.Intn(len(nl))]))
	sb.WriteString(c14PolicyText("forbid", S+`.getTag(`+O+`.m) == 1`))
	for i := 0; i < 2+r.Intn(3); i++ {
		if r.Intn(2) == 0 {
			sb.WriteString(c14PolicyText("permit", nl[r.Intn(len(nl))]))
		} else {
			sb.WriteString(c14PolicyText("permit", other[r.Intn(len(other))]))
		}
	}
	in.Text = sb.String()
	return c14BatchCase(fmt.Sprintf("batch-unspec-%d", idx), in, []string{"batch-unspecified", "unspecified-gettag-nonliteral"})
}

// ---- batch: several unbound / several unused variables ----

func c14GenBatchBadVars(r *rand.Rand, idx int) *c14Case {
	u := types.NewEntityUID
	names := c14Pick(r, []types.String{"a", "b", "p", "r", "zz", "V1", "é", "x10", "x9"}, 5)
	in := c14BatchInput{Ents: c14BatchWorld(), P: batch.Variable(names[0]), A: u("A", "a"), R: batch.Variable(names[1]),
		C:    types.NewRecord(types.RecordMap{"s": types.NewSet(batch.Variable(names[2]), types.Long(1)), "k": types.String("t")}),
		Text: c14PolicyText("permit", "principal.n + resource.m > 0") + c14PolicyText("permit", "true")}
	label := "batch-several-unbound"
	if idx%2 == 0 { // 2 or 3 of the template's three variables have no value list
		for _, n := range names[:r.Intn(2)] {
			in.Vars = append(in.Vars, c14BatchVar{n, []types.Value{u("U", "1")}})
		}
	} else { // all bound, plus 2 or 3 value lists for names that do not occur
		label = "batch-several-unused"
		in.Vars = []c14BatchVar{{names[0], []types.Value{u("U", "1")}}, {names[1], []types.Value{u("D", "1")}}, {names[2], []types.Value{types.Long(2)}}}
		for _, n := range append(names[3:5], "unused")[:2+r.Intn(2)] {
			in.Vars = append(in.Vars, c14BatchVar{n, []types.Value{types.Long(1), types.Long(2)}[:1+r.Intn(2)]})
		}
		r.Shuffle(len(in.Vars), func(i, j int) { in.Vars[i], in.Vars[j] = in.Vars[j], in.Vars[i] })
	}
	return c14BatchCase(fmt.Sprintf("batch-badvars-%d", idx), in, []string{label})
}

// c14BatchCases: all cases of the kinds `authz-unspecified` and `batch` (own random stream: the cases generated
// before these kinds existed are unchanged).
func c14BatchCases(seed int64, pick func(q, t int) int) []*c14Case {
	r := rand.New(rand.NewSource(seed*104729 + 1414))
	var cases []*c14Case
	for i := 0; i < pick(40, 200); i++ {
		cases = append(cases, c14GenUnspec(r, i))
	}
	// the reviewer's three witnesses, verbatim
	{
		u := types.NewEntityUID
		cases = append(cases, c14UnspecCase("unspec-witness", c14UnspecInput{Text: "permit (principal, action, resource) when { principal.getTag(context.a.b) };\n",
			Req: cedar.Request{Action: u("A", "a"), Resource: u("R", "r"), Context: types.NewRecord(types.RecordMap{"a": types.NewRecord(types.RecordMap{"b": types.String("t")})})}},
			[]string{"unspecified-gettag-nonliteral"}))
		cases = append(cases, c14BatchCase("batch-witness-tie", c14BatchInput{Text: "permit (principal, action, resource) when { principal.n + resource.m > 0 };\n",
			P: batch.Variable("p"), A: u("A", "a"), R: batch.Variable("r"), C: types.NewRecord(nil),
			Vars: []c14BatchVar{{"p", []types.Value{u("U", "1")}}, {"r", []types.Value{u("D", "1")}}}}, []string{"batch-tie-double-error"}))
		cases = append(cases, c14BatchCase("batch-witness-set", c14BatchInput{Text: "permit (principal, action, resource);\n",
			P: u("U", "1"), A: u("A", "a"), R: u("D", "1"), C: types.NewRecord(types.RecordMap{"s": types.NewSet(batch.Variable("x"), types.Long(1), types.True)}),
			Vars: []c14BatchVar{{"x", []types.Value{types.String("v")}}}}, []string{"batch-set-collision-variable"}))
	}
	for i := 0; i < pick(54, 270); i++ {
		cases = append(cases, c14GenBatchTie(r, i))
	}
	for i := 0; i < pick(40, 200); i++ {
		cases = append(cases, c14GenBatchSet(r, i))
	}
	for i := 0; i < pick(12, 60); i++ {
		cases = append(cases, c14GenBatchUnspec(r, i))
	}
	for i := 0; i < pick(24, 120); i++ {
		cases = append(cases, c14GenBatchBadVars(r, i))
	}
	return cases
}
