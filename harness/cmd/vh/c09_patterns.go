package main

// C09, like-patterns given as COMPONENT LISTS.
//
// The policy generators build patterns with types.NewPattern and compare what comes back from the codecs with what
// was built; that cannot see a defect of NewPattern itself (the built pattern is wrong, and stays wrong consistently).
// Here the starting point is the component list — the items of a JSON "pattern" array / the arguments of NewPattern:
// string literals (EMPTY ones in leading, middle and trailing position, literal `*`, escapes, non-ASCII) and wildcards
// (also several in a row).  Its meaning is fixed independently of cedar-go: the literals in order, every wildcard
// standing for any text (c09CompsMatch: dynamic programming over bytes).  Checked against it:
//   1. types.NewPattern(list...).Match
//   2. the policy JSON {"like":{"left":…,"pattern":[…]}} decoded by Policy.UnmarshalJSON: Match of the decoded pattern,
//      and the decoded pattern is the one NewPattern builds
//   3. the same policy written as Cedar text (`like "…"` with the list rendered as a pattern literal): the text codec
//      and the JSON codec give the same policy
//   4. cedar.Authorize of the JSON policy and of the text policy on requests whose context holds the test strings:
//      allow exactly when the list matches
//   5. the Lean model of the decoder on the same document (correspondence, op json-decode).

import (
	"fmt"
	"math/rand"
	"strings"

	cedar "github.com/cedar-policy/cedar-go"
	publicast "github.com/cedar-policy/cedar-go/ast"
	"github.com/cedar-policy/cedar-go/types"
	"github.com/cedar-policy/cedar-go/x/exp/ast"

	"verifharness/vh"
)

// c09Comp: one component; wild = "Wildcard" / types.Wildcard{}, else the literal lit.
type c09Comp struct {
	wild bool
	lit  string
}

var c09PatLits = []string{"a", "b", "ab", "aa", "ba", "x", "é", "*", "a*", "\\", "\"", "a b", "\n", "日本"}

// c09GenComps: a random component list.  shape names what was forced into it (for the input distribution).
func c09GenComps(r *rand.Rand) (cs []c09Comp, shape string) {
	lit := func() c09Comp { return c09Comp{lit: c09PatLits[r.Intn(len(c09PatLits))]} }
	empty := c09Comp{lit: ""}
	wild := c09Comp{wild: true}
	random := func(n int) []c09Comp {
		var out []c09Comp
		for i := 0; i < n; i++ {
			switch k := r.Intn(10); {
			case k < 4:
				out = append(out, wild)
			case k < 6:
				out = append(out, empty)
			default:
				out = append(out, lit())
			}
		}
		return out
	}
	switch r.Intn(8) {
	case 0: // leading empty literal(s), then a wildcard
		shape = "leading-empty-literal"
		for i, n := 0, 1+r.Intn(2); i < n; i++ {
			cs = append(cs, empty)
		}
		cs = append(cs, wild)
		cs = append(cs, random(r.Intn(4))...)
	case 1: // empty literal in the middle, between wildcards or literals
		shape = "middle-empty-literal"
		cs = append(cs, random(1+r.Intn(2))...)
		cs = append(cs, empty)
		if r.Intn(2) == 0 {
			cs = append(cs, wild)
		}
		cs = append(cs, random(1+r.Intn(2))...)
	case 2: // trailing empty literal
		shape = "trailing-empty-literal"
		cs = append(cs, random(1+r.Intn(3))...)
		if r.Intn(2) == 0 {
			cs = append(cs, wild)
		}
		cs = append(cs, empty)
	case 3: // consecutive wildcards
		shape = "consecutive-wildcards"
		cs = append(cs, random(r.Intn(3))...)
		for i, n := 0, 2+r.Intn(2); i < n; i++ {
			cs = append(cs, wild)
			if r.Intn(3) == 0 {
				cs = append(cs, empty)
			}
		}
		cs = append(cs, random(r.Intn(3))...)
	case 4: // only empty literals and wildcards
		shape = "empties-and-wildcards"
		for i, n := 0, 1+r.Intn(4); i < n; i++ {
			if r.Intn(2) == 0 {
				cs = append(cs, empty)
			} else {
				cs = append(cs, wild)
			}
		}
	default:
		shape = "random"
		cs = random(1 + r.Intn(5))
	}
	return cs, shape
}

func c09CompsString(cs []c09Comp) string {
	var xs []string
	for _, c := range cs {
		if c.wild {
			xs = append(xs, "*")
		} else {
			xs = append(xs, fmt.Sprintf("%q", c.lit))
		}
	}
	return "[" + strings.Join(xs, ", ") + "]"
}

func c09CompsJSON(cs []c09Comp) []any {
	out := []any{}
	for _, c := range cs {
		if c.wild {
			out = append(out, "Wildcard")
		} else {
			out = append(out, map[string]any{"Literal": c.lit})
		}
	}
	return out
}

func c09CompsArgs(cs []c09Comp, r *rand.Rand) []any {
	var out []any
	for _, c := range cs {
		switch {
		case c.wild:
			out = append(out, types.Wildcard{})
		case r.Intn(2) == 0:
			out = append(out, c.lit)
		default:
			out = append(out, types.String(c.lit))
		}
	}
	return out
}

// c09CompsText: the list as the text between the quotes of a Cedar pattern literal.
func c09CompsText(cs []c09Comp) string {
	var b strings.Builder
	for _, c := range cs {
		if c.wild {
			b.WriteByte('*')
			continue
		}
		for _, ch := range c.lit {
			switch {
			case ch == '*':
				b.WriteString(`\*`)
			case ch >= 'a' && ch <= 'z', ch >= 'A' && ch <= 'Z', ch >= '0' && ch <= '9', ch == ' ':
				b.WriteRune(ch)
			default:
				fmt.Fprintf(&b, `\u{%x}`, ch)
			}
		}
	}
	return b.String()
}

// c09CompsMatch: the meaning of the list, decided without cedar-go — elements are bytes and stars; ok[j] = the
// elements seen so far match s[:j].
func c09CompsMatch(cs []c09Comp, s string) bool {
	ok := make([]bool, len(s)+1)
	ok[0] = true
	for _, c := range cs {
		if c.wild {
			seen := false
			for j := 0; j <= len(s); j++ {
				seen = seen || ok[j]
				ok[j] = seen
			}
			continue
		}
		for k := 0; k < len(c.lit); k++ {
			next := make([]bool, len(s)+1)
			for j := 0; j < len(s); j++ {
				next[j+1] = ok[j] && s[j] == c.lit[k]
			}
			ok = next
		}
	}
	return ok[len(s)]
}

// c09CompsSubjects: strings around the accept / reject boundary of the list.
func c09CompsSubjects(cs []c09Comp, r *rand.Rand) []string {
	fill := []string{"", "x", "a", "ab", "zz", "*", "é"}
	build := func(pre, wildFill func() string) string {
		var b strings.Builder
		b.WriteString(pre())
		for _, c := range cs {
			if c.wild {
				b.WriteString(wildFill())
			} else {
				b.WriteString(c.lit)
			}
		}
		return b.String()
	}
	none := func() string { return "" }
	any := func() string { return fill[r.Intn(len(fill))] }
	out := []string{"", "a", "xa", "ax", build(none, none), build(none, any), build(none, any), build(any, any), build(any, none), build(none, any) + any()}
	if s := build(none, any); len(s) > 0 {
		out = append(out, s[1:], s[:len(s)-1])
	}
	return out
}

func c09PatternClass(cs []c09Comp) string {
	// a wildcard directly after nothing but empty literals at the start of the list
	for i, c := range cs {
		if c.wild {
			if i > 0 {
				return "like-json-wildcard-after-empty-literal"
			}
			break
		}
		if c.lit != "" {
			break
		}
	}
	return "like-pattern-components-meaning"
}

func c09LikeOf(p *ast.Policy) (types.Pattern, bool) {
	if p == nil || len(p.Conditions) != 1 {
		return types.Pattern{}, false
	}
	l, ok := p.Conditions[0].Body.(ast.NodeTypeLike)
	return l.Value, ok
}

func c09AllowWith(p *ast.Policy, s string) string {
	out := ""
	if pn := vh.Protect(func() {
		set := cedar.NewPolicySet()
		set.Add("p", cedar.NewPolicyFromAST((*publicast.Policy)(p)))
		req := cedar.Request{Principal: types.NewEntityUID("U", "u"), Action: types.NewEntityUID("A", "a"), Resource: types.NewEntityUID("R", "r"),
			Context: types.NewRecord(types.RecordMap{"s": types.String(s)})}
		d, diag := cedar.Authorize(set, types.EntityMap{}, req)
		out = fmt.Sprintf("%v errors=%d", d, len(diag.Errors))
	}); pn != nil {
		return "panic"
	}
	return out
}

// c09PatternComponents runs the component-list campaign; addDecode hands a document to the decoder and to the model.
func c09PatternComponents(c *vh.Ctx, addDecode func(tree any, tag string)) {
	n := c.N(1200, 20000)
	condDoc := func(body any) any {
		return map[string]any{"effect": "permit", "principal": map[string]any{"op": "All"}, "action": map[string]any{"op": "All"}, "resource": map[string]any{"op": "All"},
			"conditions": []any{map[string]any{"kind": "when", "body": body}}}
	}
	fixed := [][]c09Comp{
		{{lit: ""}, {wild: true}, {lit: "a"}},
		{{lit: ""}, {lit: ""}, {wild: true}},
		{{lit: ""}, {wild: true}, {wild: true}, {lit: "a"}, {lit: ""}},
		{{wild: true}, {lit: ""}, {wild: true}, {lit: "a"}},
		{{lit: "a"}, {wild: true}, {lit: ""}, {wild: true}, {wild: true}, {lit: "b"}, {lit: ""}},
		{{lit: ""}},
		{{wild: true}},
	}
	for i := 0; i < n; i++ {
		var cs []c09Comp
		shape := "fixed"
		if i < len(fixed) {
			cs = fixed[i]
		} else {
			cs, shape = c09GenComps(c.Rng)
		}
		c.Dist("like-components:" + shape)
		c.Res.OracleChecks++
		cls := c09PatternClass(cs)
		in := map[string]any{"components": c09CompsString(cs), "json_pattern": c09CompsJSON(cs), "cedar_pattern": c09CompsText(cs)}
		subjects := c09CompsSubjects(cs, c.Rng)

		// 1. NewPattern
		var built types.Pattern
		if pn := vh.Protect(func() { built = types.NewPattern(c09CompsArgs(cs, c.Rng)...) }); pn != nil {
			c.Report(vh.Finding{Class: "like-pattern-panic", What: fmt.Sprintf("types.NewPattern panics on %s: %v", c09CompsString(cs), pn), Check: "oracle", Op: "new-pattern", Input: in})
			continue
		}
		for _, s := range subjects {
			want := c09CompsMatch(cs, s)
			if got := built.Match(types.String(s)); got != want {
				in["subject"] = s
				c.Report(vh.Finding{Class: cls, What: fmt.Sprintf("types.NewPattern(%s) = %s: Match(%q) = %v, the component list says %v", c09CompsString(cs), built.MarshalCedar(), s, got, want),
					Check: "oracle", Op: "new-pattern", Input: in, Expected: want, Actual: got})
				break
			}
		}

		// 2. policy JSON
		left := map[string]any{".": map[string]any{"left": map[string]any{"Var": "context"}, "attr": "s"}}
		tree := condDoc(map[string]any{"like": map[string]any{"left": left, "pattern": c09CompsJSON(cs)}})
		doc := vh.SortedJSON(tree)
		in["document"] = string(doc)
		out, pj := c09DecodeJSON(doc)
		pat, isLike := c09LikeOf(pj)
		if !isLike {
			c.Report(vh.Finding{Class: "like-pattern-json-rejected", What: fmt.Sprintf("a like node with the pattern %s is not decoded as a like node: %s", c09CompsString(cs), out), Check: "oracle", Op: "json-decode", Input: in, Actual: out})
			continue
		}
		if vh.ShowPatternC09(pat) != vh.ShowPatternC09(built) {
			c.Report(vh.Finding{Class: "like-pattern-json-differs-from-newpattern", What: fmt.Sprintf("the pattern decoded from JSON %s differs from types.NewPattern of the same components %s", vh.ShowPatternC09(pat), vh.ShowPatternC09(built)),
				Check: "oracle", Op: "json-decode", Input: in})
		}
		for _, s := range subjects {
			want := c09CompsMatch(cs, s)
			if got := pat.Match(types.String(s)); got != want {
				in["subject"] = s
				c.Report(vh.Finding{Class: cls, What: fmt.Sprintf("policy JSON with \"pattern\":%s decodes to like %s: %q matches = %v, the component list says %v", vh.SortedJSON(c09CompsJSON(cs)), pat.MarshalCedar(), s, got, want),
					Check: "oracle", Op: "json-decode", Input: in, Expected: want, Actual: got})
				break
			}
		}

		// 3. the text codec on the same pattern
		txt := []byte(`permit(principal, action, resource) when { context.s like "` + c09CompsText(cs) + `" };`)
		pt, perr := c09ParseText(txt)
		if perr != nil {
			c.Report(vh.Finding{Class: "like-pattern-text-rejected", What: fmt.Sprintf("the text form of the pattern %s is refused: %v: %s", c09CompsString(cs), perr, txt), Check: "oracle", Op: "text-decode", Input: in})
			continue
		}
		if a, b := c09Show(pj, true), c09Show(pt, true); a != b {
			c.Report(vh.Finding{Class: cls, What: fmt.Sprintf("the JSON codec and the text codec disagree on the same pattern: \"pattern\":%s decodes to like %s, the text %s to like %s",
				vh.SortedJSON(c09CompsJSON(cs)), pat.MarshalCedar(), txt, func() []byte { p, _ := c09LikeOf(pt); return p.MarshalCedar() }()),
				Check: "oracle", Op: "json-vs-text", Input: in, Expected: b, Actual: a})
		}

		// 4. authorization decisions
		for k, s := range subjects {
			if k >= 4 && !c.Thorough() {
				break
			}
			want := "deny errors=0"
			if c09CompsMatch(cs, s) {
				want = "allow errors=0"
			}
			gj, gt := c09AllowWith(pj, s), c09AllowWith(pt, s)
			if gj != want || gt != want {
				in["subject"] = s
				c.Report(vh.Finding{Class: cls, What: fmt.Sprintf("context.s = %q: the JSON policy (\"pattern\":%s) authorizes %q, the text policy (like \"%s\") %q, the component list says %q",
					s, vh.SortedJSON(c09CompsJSON(cs)), gj, c09CompsText(cs), gt, want), Check: "oracle", Op: "authz", Input: in, Expected: want, Actual: map[string]any{"json": gj, "text": gt}})
				break
			}
		}

		// 5. the Lean model on the same document
		addDecode(tree, "like-components")
		if i < len(fixed) {
			c.Sample(map[string]any{"op": "like-components", "components": c09CompsString(cs), "document": string(doc)})
		}
	}
}
