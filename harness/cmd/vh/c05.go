package main

// C05 — batch authorization equals brute-force authorization of every substitution.
//
// DIRECT ORACLE (decides the property on the implementation): for a policy set, an entity store and a request
// template with unknowns (batch.Variable) in principal / action / resource / context (nested in records and sets,
// the same unknown several times, several unknowns, empty and singleton lists, ignored parts):
//   * batch.Authorize invokes the callback exactly once per element of the Cartesian product of the value lists
//     (as a multiset: duplicate list entries count), with Result.Values = that substitution and
//     Result.Request = the template with EVERY occurrence of every unknown replaced;
//   * Result.Decision and the SET of reason policy ids equal cedar.Authorize(ps, es, Result-request);
//   * the callback failing at its k-th invocation, or the context being cancelled during the k-th invocation
//     (k = 0: before the call), stops the enumeration: exactly k (+1 for the failing call itself) invocations
//     happen and the returned error wraps that error;
//   * the documented error cases: unbound / unused variable (error, no callback), an empty list (no callback,
//     no error), a part of the wrong type at authorization time (error).
//   * ignored parts: only the weak direction the property states — for permit-only policy sets, Allow for some
//     value of the ignored part implies batch Allow.
// CLASSIFICATION is causal, as for C06: the batch run is replayed policy by policy with the reference partial
// evaluator (vh/partialref.go) through the same staging (partial evaluation before each variable is substituted);
// in one of its base configurations (vh.BaseCfgs: repaired code first, the code before the repairs last) the replay
// must reproduce the observed batch result, and the failure is attributed to the smallest set of repairs on top of
// that base that makes the replay agree with the ordinary authorizer.  A request that still contains an unknown
// whose record has two fields bearing it is `clonesub-second-occurrence`.  All these classes are "fixed" in
// known_findings: a returning defect is reported as a VIOLATION that names it.
//
// CORRESPONDENCE: op `clonesub` — batch.cloneSub (hook VerifCloneSub) against Model/Batch.lean, exact; op `batch` —
// the whole enumeration against `batchAuthorize`.

import (
	"context"
	"errors"
	"fmt"
	"os"
	"sort"
	"strings"

	cedar "github.com/cedar-policy/cedar-go"
	"github.com/cedar-policy/cedar-go/types"
	"github.com/cedar-policy/cedar-go/x/exp/ast"
	"github.com/cedar-policy/cedar-go/x/exp/batch"
	"github.com/cedar-policy/cedar-go/x/exp/eval"

	"verifharness/vh"
)

func init() { props["C05"] = runC05 }

type c05Case struct {
	name   string
	t      *vh.Template
	es     types.EntityMap
	ps     []vh.IDPolicy
	vars   batch.Variables
	rich   bool     // built by the lazy-matrix stream (c05_lazy.go)
	labels []string // the cells of the lazy matrix the policies were built for
}

type c05Result struct {
	req      string // canonical request
	vals     string // canonical substitution
	sub      map[types.String]types.Value
	decision cedar.Decision
	reasons  []string
	errs     []string
	raw      types.Request
}

func showSub(m map[types.String]types.Value) string {
	var ks []string
	for k := range m {
		ks = append(ks, string(k))
	}
	sort.Strings(ks)
	var xs []string
	for _, k := range ks {
		xs = append(xs, vh.Hex(k)+"="+vh.ShowValue(m[types.String(k)]))
	}
	return strings.Join(xs, ";")
}

func showReq(p, a, r, c types.Value) string {
	return vh.ShowValue(p) + "|" + vh.ShowValue(a) + "|" + vh.ShowValue(r) + "|" + vh.ShowValue(c)
}

func idsOf(rs []types.DiagnosticReason) []string {
	var xs []string
	for _, r := range rs {
		xs = append(xs, string(r.PolicyID))
	}
	sort.Strings(xs)
	return dedupStrings(xs)
}

func errIdsOf(es []types.DiagnosticError) []string {
	var xs []string
	for _, e := range es {
		xs = append(xs, string(e.PolicyID))
	}
	sort.Strings(xs)
	return dedupStrings(xs)
}

func dedupStrings(xs []string) []string {
	out := xs[:0]
	for i, x := range xs {
		if i == 0 || x != xs[i-1] {
			out = append(out, x)
		}
	}
	return out
}

func (cs c05Case) policySet() *cedar.PolicySet {
	set := cedar.NewPolicySet()
	for _, ip := range cs.ps {
		set.Add(ip.ID, ip.P)
	}
	return set
}

func (cs c05Case) request() batch.Request {
	return batch.Request{Principal: cs.t.Env.Principal, Action: cs.t.Env.Action, Resource: cs.t.Env.Resource, Context: cs.t.Env.Context, Variables: cs.vars}
}

// runBatch runs batch.Authorize with a callback wrapper; failAt / cancelAt are 1-based invocation numbers (0 = never).
func c05RunBatch(cs c05Case, ctx context.Context, cancel context.CancelFunc, failAt, cancelAt int, failErr error) (results []c05Result, calls int, err error, panicked any) {
	record := failAt == 0 && cancelAt == 0 && cancel == nil
	set, req := cs.policySet(), cs.request()
	panicked = vh.Protect(func() {
		err = batch.Authorize(ctx, set, cs.es, req, func(r batch.Result) error {
			calls++
			if !record { // fault-injection runs only count invocations
				if calls == cancelAt && cancel != nil {
					cancel()
				}
				if calls == failAt {
					return failErr
				}
				return nil
			}
			sub := map[types.String]types.Value{}
			for k, v := range r.Values {
				sub[k] = v
			}
			results = append(results, c05Result{req: showReq(r.Request.Principal, r.Request.Action, r.Request.Resource, r.Request.Context), vals: showSub(sub), sub: sub,
				decision: r.Decision, reasons: idsOf(r.Diagnostic.Reasons), errs: errIdsOf(r.Diagnostic.Errors), raw: r.Request})
			if calls == cancelAt && cancel != nil {
				cancel()
			}
			if calls == failAt {
				return failErr
			}
			return nil
		})
	})
	return
}

// product enumerates the Cartesian product of the value lists (names sorted), as substitutions.
func c05Product(vars batch.Variables) []map[types.String]types.Value {
	var names []types.String
	for k := range vars {
		names = append(names, k)
	}
	sort.Slice(names, func(i, j int) bool { return names[i] < names[j] })
	out := []map[types.String]types.Value{{}}
	for _, n := range names {
		var next []map[types.String]types.Value
		for _, m := range out {
			for _, v := range vars[n] {
				m2 := map[types.String]types.Value{}
				for k, x := range m {
					m2[k] = x
				}
				m2[n] = v
				next = append(next, m2)
			}
		}
		out = next
	}
	return out
}

func c05Input(cs c05Case, sub map[types.String]types.Value) map[string]any {
	var pols []string
	for _, ip := range cs.ps {
		pols = append(pols, string(ip.ID)+": "+policyText(ip.AST))
	}
	vs := map[string]any{}
	for k, l := range cs.vars {
		var xs []string
		for _, v := range l {
			xs = append(xs, showMarked(v))
		}
		vs[string(k)] = xs
	}
	in := map[string]any{"case": cs.name, "policies_text": pols, "policies": vh.EncPolicies(cs.ps), "entities": vh.EncEntities(cs.es),
		"principal": showMarked(cs.t.Env.Principal), "action": showMarked(cs.t.Env.Action), "resource": showMarked(cs.t.Env.Resource), "context": showMarked(cs.t.Env.Context),
		"template":  map[string]any{"principal": vh.EncValue(cs.t.Env.Principal), "action": vh.EncValue(cs.t.Env.Action), "resource": vh.EncValue(cs.t.Env.Resource), "context": vh.EncValue(cs.t.Env.Context)},
		"variables": vs}
	if sub != nil {
		m := map[string]string{}
		for k, v := range sub {
			m[string(k)] = showMarked(v)
		}
		in["substitution"] = m
	}
	return in
}

// twoBearingFields: some record inside v has two fields that both contain the unknown `name`.
func twoBearingFields(v types.Value, name types.String) bool {
	bears := func(x types.Value) bool {
		m := map[types.String]bool{}
		vh.VarsOf(x, m)
		return m[name]
	}
	switch t := v.(type) {
	case types.Record:
		n := 0
		for x := range t.Values() {
			if bears(x) {
				n++
			}
			if twoBearingFields(x, name) {
				return true
			}
		}
		return n >= 2
	case types.Set:
		for x := range t.All() {
			if twoBearingFields(x, name) {
				return true
			}
		}
	}
	return false
}

// staged replays what doBatch does to ONE policy for the substitution sub with variable order `order`:
// partial evaluation against the template before each variable is substituted, final evaluation at the leaf.
func c05Staged(cfg vh.RefCfg, cs c05Case, p *ast.Policy, order []types.String, sub map[types.String]types.Value, events map[string]int) string {
	env := cs.t.Env
	env.Entities = cs.es
	pol := p
	step := func() bool {
		r := vh.NewRef(cfg, env)
		np, keep := r.PartialPolicy(pol)
		for k, n := range r.Events {
			events[k] += n
		}
		if !keep {
			return false
		}
		pol = np
		return true
	}
	if len(order) == 0 {
		if !step() {
			return "dropped"
		}
	}
	for _, u := range order {
		if !step() {
			return "dropped"
		}
		env = vh.SubstEnv(env, map[types.String]types.Value{u: sub[u]})
	}
	return vh.PolicyClass(pol, unknownEnv(env))
}

func authzOf(ps []vh.IDPolicy, class func(vh.IDPolicy) string) (cedar.Decision, []string) {
	var forbids, permits []string
	for _, ip := range ps {
		if class(ip) != "sat" {
			continue
		}
		if ip.AST.Effect == ast.EffectForbid {
			forbids = append(forbids, string(ip.ID))
		} else {
			permits = append(permits, string(ip.ID))
		}
	}
	sort.Strings(forbids)
	sort.Strings(permits)
	if len(forbids) > 0 {
		return cedar.Deny, forbids
	}
	if len(permits) > 0 {
		return cedar.Allow, permits
	}
	return cedar.Deny, nil
}

// the order in which batch binds the variables: fewest values first, variables with equally many values by name
// (a function of the request since `fix: batch binds variables with equally many values in name order`; before, ties
// were left in Go map order and every permutation with non-decreasing list length had to be tried).
func c05Orders(vars batch.Variables) [][]types.String {
	var names []types.String
	for k := range vars {
		names = append(names, k)
	}
	sort.Slice(names, func(i, j int) bool {
		if len(vars[names[i]]) != len(vars[names[j]]) {
			return len(vars[names[i]]) < len(vars[names[j]])
		}
		return names[i] < names[j]
	})
	return [][]types.String{names}
}

// c05Explain classifies a decision / reason mismatch for substitution sub.  Returns classes, ok.
func c05Explain(cs c05Case, res c05Result, directClass map[cedar.PolicyID]string) ([]string, bool) {
	for _, base := range vh.BaseCfgs() {
		for _, order := range c05Orders(cs.vars) {
			events := map[string]int{}
			staged := map[cedar.PolicyID]string{}
			for _, ip := range cs.ps {
				staged[ip.ID] = c05Staged(base, cs, ip.AST, order, res.sub, events)
			}
			d, rs := authzOf(cs.ps, func(ip vh.IDPolicy) string { return staged[ip.ID] })
			if d != res.decision || strings.Join(rs, ",") != strings.Join(res.reasons, ",") {
				continue // this base / order does not reproduce the observed batch result
			}
			// per differing policy: smallest repair set under which the staged class agrees with the direct class
			classes := map[string]bool{}
			allOK := true
			for _, ip := range cs.ps {
				if (staged[ip.ID] == "sat") == (directClass[ip.ID] == "sat") {
					continue
				}
				ev := map[string]int{}
				c05Staged(base, cs, ip.AST, order, res.sub, ev)
				cands := map[string]bool{}
				for k := range ev {
					cands[k] = true
				}
				for round := 0; round < 4; round++ {
					var names []string
					for k := range cands {
						names = append(names, k)
					}
					ev2 := map[string]int{}
					c05Staged(base.With(names), cs, ip.AST, order, res.sub, ev2)
					grew := false
					for k := range ev2 {
						if !cands[k] {
							cands[k], grew = true, true
						}
					}
					if !grew {
						break
					}
				}
				var names []string
				for k := range cands {
					names = append(names, k)
				}
				sort.Strings(names)
				found := false
				for _, s := range vh.Subsets(names) {
					if (c05Staged(base.With(s), cs, ip.AST, order, res.sub, map[string]int{}) == "sat") == (directClass[ip.ID] == "sat") {
						for _, k := range s {
							classes[k] = true
						}
						found = true
						break
					}
				}
				if !found {
					allOK = false
				}
			}
			if allOK && len(classes) > 0 {
				var out []string
				for k := range classes {
					out = append(out, k)
				}
				sort.Strings(out)
				return out, true
			}
		}
	}
	return nil, false
}

// c05ExplainIgnore: batch denied although some permit policy is satisfied for a value of the ignored part (env2).
// Attribute it to the smallest set of repairs under which the staged residual of such a policy is satisfied.
func c05ExplainIgnore(cs c05Case, res c05Result, env2 eval.Env) ([]string, bool) {
	for _, base := range vh.BaseCfgs() {
		for _, order := range c05Orders(cs.vars) {
			reproduced := true
			var cands []vh.IDPolicy
			for _, ip := range cs.ps {
				st := c05Staged(base, cs, ip.AST, order, res.sub, map[string]int{})
				if st == "sat" {
					reproduced = false // the replay would allow: this base / order is not the one batch used
				}
				if vh.PolicyClass(ip.AST, env2) == "sat" {
					cands = append(cands, ip)
				}
			}
			if !reproduced {
				continue
			}
			for _, ip := range cands {
				ev := map[string]int{}
				c05Staged(base, cs, ip.AST, order, res.sub, ev)
				names := map[string]bool{}
				for k := range ev {
					names[k] = true
				}
				for round := 0; round < 4; round++ {
					var ns []string
					for k := range names {
						ns = append(ns, k)
					}
					ev2 := map[string]int{}
					c05Staged(base.With(ns), cs, ip.AST, order, res.sub, ev2)
					grew := false
					for k := range ev2 {
						if !names[k] {
							names[k], grew = true, true
						}
					}
					if !grew {
						break
					}
				}
				var ns []string
				for k := range names {
					ns = append(ns, k)
				}
				sort.Strings(ns)
				for _, s := range vh.Subsets(ns) {
					if c05Staged(base.With(s), cs, ip.AST, order, res.sub, map[string]int{}) == "sat" {
						return s, true
					}
				}
			}
		}
	}
	return nil, false
}

type c05Stats struct {
	calls, mismatches int
	classes           map[string]bool
	failed            bool
	n                 int
}

// storeEnc caches the protocol encoding of an entity store (the driver keeps it under a reference name);
// the request parts travel separately ("parts") and override the placeholder parts of the stored environment.
var storeCache = map[string]vh.EnvEnc{}

func storeEnc(es types.EntityMap) vh.EnvEnc {
	k := fmt.Sprintf("%p", es)
	if e, ok := storeCache[k]; ok {
		return e
	}
	ph := types.NewEntityUID("", "")
	e := vh.MkEnvEnc(eval.Env{Entities: es, Principal: ph, Action: ph, Resource: ph, Context: types.NewRecord(nil)})
	storeCache[k] = e
	return e
}

func encParts(env eval.Env) any {
	return map[string]any{"principal": vh.EncValue(env.Principal), "action": vh.EncValue(env.Action), "resource": vh.EncValue(env.Resource), "context": vh.EncValue(env.Context)}
}

func c05Line(r c05Result) string {
	var vs []string
	for k, v := range r.sub {
		vs = append(vs, vh.Hex(string(k))+"="+vh.ShowValue(v))
	}
	sort.Strings(vs)
	hexs := func(xs []string) string {
		var out []string
		for _, x := range xs {
			out = append(out, vh.Hex(x))
		}
		sort.Strings(out)
		return strings.Join(out, ",")
	}
	d := "deny"
	if r.decision == cedar.Allow {
		d = "allow"
	}
	return strings.Join(vs, ";") + "|" + r.req + "|" + d + "|" + hexs(r.reasons) + "|" + hexs(r.errs)
}

func c05Check(c *vh.Ctx, g *vh.Gen, b *vh.Batch, cs c05Case, inject bool) c05Stats {
	st := c05Stats{classes: map[string]bool{}}
	report := func(cls, what string, sub map[types.String]types.Value, exp, act any) {
		st.failed = true
		st.classes[cls] = true
		var in any
		if !(c.IsKnown(cls) && c.KnownSeen(cls) > 0) {
			in = c05Input(cs, sub) // replay input only where it will be written / shown
		}
		c.Report(vh.Finding{Class: cls, What: what, Check: "oracle", Op: "batch", Input: in, Expected: exp, Actual: act})
	}
	ctx := context.Background()
	results, calls, err, pan := c05RunBatch(cs, ctx, nil, 0, 0, nil)
	st.calls = calls
	c.Res.OracleChecks++
	if pan != nil {
		report("batch-panic", fmt.Sprintf("batch.Authorize panicked: %v", pan), nil, nil, fmt.Sprint(pan))
		return st
	}
	// documented error cases, in the order batch.Authorize checks them
	found := map[types.String]bool{}
	for _, v := range []types.Value{cs.t.Env.Principal, cs.t.Env.Action, cs.t.Env.Resource, cs.t.Env.Context} {
		vh.VarsOf(v, found)
	}
	unbound, unused, empty := false, false, false
	for k := range found {
		if _, ok := cs.vars[k]; !ok {
			unbound = true
		}
	}
	for k, l := range cs.vars {
		if !found[k] {
			unused = true
		}
		if len(l) == 0 {
			empty = true
		}
	}
	switch {
	case unbound || unused:
		c.Dist("case:unbound-or-unused")
		if err == nil || calls != 0 {
			report("unbound-unused-not-rejected", fmt.Sprintf("unbound=%v unused=%v variable: err=%v callbacks=%d", unbound, unused, err, calls), nil, "error, 0 callbacks", fmt.Sprintf("err=%v callbacks=%d", err, calls))
		}
		return st
	case empty:
		c.Dist("case:empty-list")
		if err != nil || calls != 0 {
			report("empty-list", fmt.Sprintf("empty value list: err=%v callbacks=%d", err, calls), nil, "nil, 0 callbacks", fmt.Sprintf("err=%v callbacks=%d", err, calls))
		}
		return st
	}
	prod := c05Product(cs.vars)
	st.n = len(prod)
	c.Dist(fmt.Sprintf("product-size:%s", bucket(len(prod))))
	// expected per substitution
	type exp struct {
		sub   map[types.String]types.Value
		env   eval.Env
		count int
		valid bool
	}
	expected := map[string]*exp{}
	anyInvalid := false
	for _, sub := range prod {
		k := showSub(sub)
		if e, ok := expected[k]; ok {
			e.count++
			continue
		}
		env := unknownEnv(vh.SubstEnv(cs.t.Env, sub))
		env.Entities = cs.es
		_, valid := vh.RequestOf(env)
		if !valid {
			anyInvalid = true
		}
		expected[k] = &exp{sub: sub, env: env, count: 1, valid: valid}
	}
	if anyInvalid {
		c.Dist("case:invalid-part")
		if err == nil {
			report("invalid-part-not-rejected", "a substituted request part has the wrong type but no error was returned", nil, "error", "nil")
		}
		// delivered results must still be individually right; fall through with count checks relaxed
	} else if err != nil {
		report("unexpected-error", fmt.Sprintf("batch.Authorize returned %v on a well-formed template", err), nil, "nil", err.Error())
		return st
	}
	got := map[string]int{}
	ignored := cs.t.HasIgnore()
	permitOnly := true
	for _, ip := range cs.ps {
		if ip.AST.Effect != ast.EffectPermit {
			permitOnly = false
		}
	}
	set := cs.policySet()
	for _, r := range results {
		got[r.vals]++
		e, ok := expected[r.vals]
		if !ok {
			report("callback-unexpected-substitution", "callback invoked with a substitution outside the product: "+r.vals, r.sub, nil, r.vals)
			continue
		}
		if !e.valid {
			report("callback-on-invalid-request", "callback invoked for a substitution whose request is ill-typed", r.sub, nil, r.req)
			continue
		}
		wantReq := showReq(e.env.Principal, e.env.Action, e.env.Resource, e.env.Context)
		reqOK := r.req == wantReq
		if !reqOK {
			st.mismatches++
			// which unknown survived?
			left := map[types.String]bool{}
			vh.VarsOf(r.raw.Context, left)
			vh.VarsOf(r.raw.Principal, left)
			vh.VarsOf(r.raw.Action, left)
			vh.VarsOf(r.raw.Resource, left)
			cls := "request-not-substituted"
			for n := range left {
				if twoBearingFields(cs.t.Env.Context, n) {
					cls = "clonesub-second-occurrence"
				}
			}
			report(cls, fmt.Sprintf("Result.Request is not the fully substituted template: context=%s, expected %s, for %s (template context %s)", showMarked(r.raw.Context), showMarked(e.env.Context), showMarkedSub(r.sub), showMarked(cs.t.Env.Context)), r.sub, wantReq, r.req)
			c.Dist("decision-under-clonesub")
			continue
		}
		req, _ := vh.RequestOf(e.env)
		if ignored {
			// weak direction only: permit-only sets, some value of the ignored part allows => batch allows
			if permitOnly && r.decision != cedar.Allow {
				for _, cb := range c05IgnoreCombos(g, cs, e.env) {
					env2 := completeEnv(cs.t.Env, combo{sub: r.sub, ign: cb})
					env2.Entities = cs.es
					rq, ok := vh.RequestOf(env2)
					if !ok {
						continue
					}
					if d, _ := cedar.Authorize(set, cs.es, rq); d != cedar.Allow {
						continue
					}
					what := fmt.Sprintf("permit-only policy set: ordinary authorizer allows for ignored part = %v but batch denies for %s | principal=%s action=%s resource=%s context=%s | %s",
						cb, showMarkedSub(r.sub), showMarked(cs.t.Env.Principal), showMarked(cs.t.Env.Action), showMarked(cs.t.Env.Resource), showMarked(cs.t.Env.Context), c05PoliciesText(cs))
					if classes, ok := c05ExplainIgnore(cs, r, env2); ok {
						for _, cls := range classes {
							report(cls, what, r.sub, "allow", "deny")
						}
					} else {
						report("ignore-not-widening", what, r.sub, "allow", "deny")
					}
					break
				}
			}
			continue
		}
		var d cedar.Decision
		var diag cedar.Diagnostic
		if p := vh.Protect(func() { d, diag = cedar.Authorize(set, cs.es, req) }); p != nil {
			report("authorize-panic", fmt.Sprintf("cedar.Authorize panicked: %v", p), r.sub, nil, nil)
			continue
		}
		c.Res.OracleChecks++
		c.Dist("direct:" + d.String())
		want := idsOf(diag.Reasons)
		if strings.Join(errIdsOf(diag.Errors), ",") != strings.Join(r.errs, ",") {
			c.Dist("weak:error-set-differs")
		}
		if d == r.decision && strings.Join(want, ",") == strings.Join(r.reasons, ",") {
			continue
		}
		st.mismatches++
		directClass := map[cedar.PolicyID]string{}
		for _, ip := range cs.ps {
			directClass[ip.ID] = vh.PolicyClass(ip.AST, e.env)
		}
		what := fmt.Sprintf("batch %v reasons=%v vs ordinary authorizer %v reasons=%v for %s | principal=%s action=%s resource=%s context=%s | %s",
			r.decision, r.reasons, d, want, showMarkedSub(r.sub), showMarked(cs.t.Env.Principal), showMarked(cs.t.Env.Action), showMarked(cs.t.Env.Resource), showMarked(cs.t.Env.Context), c05PoliciesText(cs))
		classes, ok := c05Explain(cs, r, directClass)
		if !ok {
			report("unexplained-decision-mismatch", what, r.sub, fmt.Sprintf("%v %v", d, want), fmt.Sprintf("%v %v", r.decision, r.reasons))
			continue
		}
		for _, cls := range classes {
			report(cls, what, r.sub, fmt.Sprintf("%v %v", d, want), fmt.Sprintf("%v %v", r.decision, r.reasons))
		}
	}
	if !anyInvalid {
		for k, e := range expected {
			if got[k] != e.count {
				report("callback-count", fmt.Sprintf("substitution %s delivered %d times, expected %d (total callbacks %d, product %d)", showMarkedSub(e.sub), got[k], e.count, calls, len(prod)), e.sub, e.count, got[k])
				break
			}
		}
	}
	// white-box correspondence of the whole enumeration with Model/Batch.lean
	if b != nil && !anyInvalid && err == nil && len(prod) <= 64 {
		{
			var lines []string
			for _, r := range results {
				lines = append(lines, c05Line(r))
			}
			sort.Strings(lines)
			var orders []any
			for _, o := range c05Orders(cs.vars) {
				var vs []any
				for _, n := range o {
					var xs []any
					for _, v := range cs.vars[n] {
						xs = append(xs, vh.EncValue(v))
					}
					if xs == nil {
						xs = []any{}
					}
					vs = append(vs, []any{vh.Hex(string(n)), xs})
				}
				if vs == nil {
					vs = []any{}
				}
				orders = append(orders, vs)
			}
			b.Add("batch", map[string]any{"policies": vh.EncPolicies(cs.ps), "envref": b.EnvRef(storeEnc(cs.es)), "parts": encParts(cs.t.Env), "orders": orders, "impl": strings.Join(lines, " ## ")}, "agree", cs.name)
		}
	}
	// failure injection at every position
	if inject && !anyInvalid && len(prod) >= 1 && len(prod) <= 24 {
		myErr := errors.New("callback failure injected by the harness")
		for k := 1; k <= len(prod); k++ {
			_, calls, err, pan := c05RunBatch(cs, context.Background(), nil, k, 0, myErr)
			c.Res.OracleChecks++
			if pan != nil || calls != k || !errors.Is(err, myErr) {
				report("callback-error-not-stopping", fmt.Sprintf("callback failed at invocation %d of %d: callbacks=%d err=%v panic=%v", k, len(prod), calls, err, pan), nil, fmt.Sprintf("%d callbacks, that error", k), fmt.Sprintf("%d callbacks, %v", calls, err))
				break
			}
		}
		for k := 0; k <= len(prod); k++ {
			cctx, cancel := context.WithCancel(context.Background())
			if k == 0 {
				cancel()
			}
			_, calls, err, pan := c05RunBatch(cs, cctx, cancel, 0, k, nil)
			cancel()
			c.Res.OracleChecks++
			if pan != nil || calls != k || !errors.Is(err, context.Canceled) {
				report("cancel-not-stopping", fmt.Sprintf("context cancelled during invocation %d of %d: callbacks=%d err=%v panic=%v", k, len(prod), calls, err, pan), nil, fmt.Sprintf("%d callbacks, context.Canceled", k), fmt.Sprintf("%d callbacks, %v", calls, err))
				break
			}
		}
		c.Dist("fault-injection-cases")
	}
	return st
}

func c05PoliciesText(cs c05Case) string {
	var xs []string
	for _, ip := range cs.ps {
		xs = append(xs, string(ip.ID)+": "+policyText(ip.AST))
	}
	return strings.Join(xs, " ")
}

func showMarkedSub(m map[types.String]types.Value) string {
	var ks []string
	for k := range m {
		ks = append(ks, string(k))
	}
	sort.Strings(ks)
	var xs []string
	for _, k := range ks {
		xs = append(xs, "?"+k+"="+showMarked(m[types.String(k)]))
	}
	return "{" + strings.Join(xs, ", ") + "}"
}

func bucket(n int) string {
	switch {
	case n == 0:
		return "0"
	case n == 1:
		return "1"
	case n <= 4:
		return "2-4"
	case n <= 16:
		return "5-16"
	}
	return "17+"
}

// values for the ignored parts (for the weak widening check)
func c05IgnoreCombos(g *vh.Gen, cs c05Case, env eval.Env) []map[string]types.Value {
	out := []map[string]types.Value{{}}
	for _, part := range cs.t.Ignored {
		var ch []types.Value
		switch part {
		case "principal":
			ch = []types.Value{cs.t.Base.Principal, g.World.UIDs[0], g.World.UIDs[4]}
		case "action":
			ch = []types.Value{cs.t.Base.Action, g.World.UIDs[9], g.World.UIDs[10]}
		case "resource":
			ch = []types.Value{cs.t.Base.Resource, g.World.UIDs[6], g.World.UIDs[12]}
		default:
			ch = []types.Value{cs.t.Base.Context, types.NewRecord(nil)}
		}
		if cs.rich && part != "context" {
			ch = c05KindChoices(g, vh.TEntity, c05Lits(cs), ch[0])
		}
		var next []map[string]types.Value
		for _, m := range out {
			for _, v := range ch {
				m2 := map[string]types.Value{part: v}
				for k, x := range m {
					m2[k] = x
				}
				next = append(next, m2)
			}
		}
		out = next
	}
	if nested := cs.t.NestedIgnPaths(); len(nested) > 0 {
		out = c05NestedCombos(g, cs, out, nested)
	}
	return out
}

// ---- case generation ----

func c05Policies(ps ...*ast.Policy) []vh.IDPolicy {
	var out []vh.IDPolicy
	for k, p := range ps {
		q := *p
		q.Position = ast.Position{Filename: "c05", Offset: 10 * k, Line: k + 1, Column: 1}
		out = append(out, vh.MkPolicy(fmt.Sprintf("p%d", k), &q))
	}
	return out
}

func c05Table() []c05Case {
	V := vh.MkVar
	L := func(xs ...types.Value) []types.Value { return xs }
	ua, ub, uc := types.NewEntityUID("User", "a"), types.NewEntityUID("User", "b"), types.NewEntityUID("User", "c")
	da, db := types.NewEntityUID("Doc", "a"), types.NewEntityUID("Doc", "b")
	es := tableStore()
	var out []c05Case
	add := func(name string, t *vh.Template, vars batch.Variables, texts ...string) {
		var ps []*ast.Policy
		for _, tx := range texts {
			ps = append(ps, mustPolicy(tx))
		}
		out = append(out, c05Case{name: "table/" + name, t: t, es: es, ps: c05Policies(ps...), vars: vars})
	}
	T := tableTemplate
	// cloneSub: second occurrence in a record
	add("clonesub-two-fields", T(nil, nil, nil, rec("a", V("x"), "b", V("x")), nil), batch.Variables{"x": L(types.Long(1), types.Long(2))},
		"permit(principal, action, resource) when { context.a == context.b };")
	add("clonesub-nested", T(nil, nil, nil, rec("r", rec("a", V("x"), "b", types.NewSet(V("x"))), "n", types.Long(1)), nil), batch.Variables{"x": L(types.Long(1))},
		"permit(principal, action, resource) when { context.n == 1 };")
	add("clonesub-in-set-of-records", T(nil, nil, nil, rec("rs", types.NewSet(rec("a", V("x"), "b", V("x"), "c", types.Long(0)))), nil), batch.Variables{"x": L(types.Long(1), types.Long(2))},
		"permit(principal, action, resource);")
	add("same-unknown-record-and-principal", T(V("x"), nil, nil, rec("owner", V("x")), nil), batch.Variables{"x": L(ua, ub)},
		"permit(principal, action, resource) when { principal == context.owner };", "forbid(principal == User::\"b\", action, resource) when { context.owner == User::\"b\" };")
	add("two-unknowns-two-fields", T(nil, nil, nil, rec("a", V("x"), "b", V("y")), nil), batch.Variables{"x": L(types.Long(1), types.Long(2)), "y": L(types.Long(1), types.Long(2))},
		"permit(principal, action, resource) when { context.a == context.b };")
	// stale residuals
	add("stale-and", T(nil, nil, nil, rec("key", V("k")), nil), batch.Variables{"k": L(types.True, types.False)}, "permit(principal, action, resource) when { context.key && true };")
	add("stale-or", T(nil, nil, nil, rec("key", V("k")), nil), batch.Variables{"k": L(types.True, types.False)}, "permit(principal, action, resource) when { context.key || false };")
	add("stale-if", T(nil, nil, nil, rec("key", V("k")), nil), batch.Variables{"k": L(types.True, types.False)}, "permit(principal, action, resource) when { if context.key then true else false };")
	add("stale-and-forbid", T(nil, nil, nil, rec("key", V("k")), nil), batch.Variables{"k": L(types.True, types.False)}, "permit(principal, action, resource);", "forbid(principal, action, resource) when { context.key && true };")
	add("stale-second-stage", T(V("p"), nil, nil, rec("key", V("k")), nil), batch.Variables{"k": L(types.True), "p": L(ua, ub)}, "permit(principal, action, resource) when { principal == User::\"a\" && context.key && true };")
	// tainted containers
	add("tainted-contains", T(nil, nil, nil, rec("s", types.NewSet(V("x"))), nil), batch.Variables{"x": L(types.Long(1), types.Long(2))}, "permit(principal, action, resource) when { context.s.contains(1) };")
	add("tainted-record-eq", T(nil, nil, nil, rec("r", rec("a", V("x"))), nil), batch.Variables{"x": L(types.Long(1), types.Long(2))}, "permit(principal, action, resource) when { context.r == {a: 1} };")
	add("tainted-forbid-dropped", T(nil, nil, nil, rec("s", types.NewSet(V("x"))), nil), batch.Variables{"x": L(types.Long(1), types.Long(2))}, "permit(principal, action, resource);", "forbid(principal, action, resource) when { context.s.contains(1) };")
	add("tainted-in", T(nil, nil, nil, rec("es", types.NewSet(V("x"))), nil), batch.Variables{"x": L(ua, ub)}, "permit(principal, action, resource) when { principal in context.es };")
	// is..in
	add("isin-eager", T(V("p"), nil, nil, rec("n", types.Long(1)), nil), batch.Variables{"p": L(ua, da)}, "permit(principal, action, resource) when { !(principal is Doc in context.missing) };")
	// plain enumeration shapes
	add("three-unknowns", T(V("p"), nil, V("r"), rec("n", V("n")), nil), batch.Variables{"p": L(ua, ub, uc), "r": L(da, db), "n": L(types.Long(0), types.Long(1), types.Long(2))},
		"permit(principal in Group::\"a\", action, resource) when { context.n > 0 };", "forbid(principal, action, resource == Doc::\"b\") when { context.n == 2 };", "permit(principal == User::\"b\", action, resource is Doc) unless { context.n < 2 };")
	add("duplicate-values", T(V("p"), nil, nil, nil, nil), batch.Variables{"p": L(ua, ua, ub)}, "permit(principal == User::\"a\", action, resource);")
	add("singletons", T(V("p"), V("a"), V("r"), V("c"), nil), batch.Variables{"p": L(ua), "a": L(types.NewEntityUID("Action", "a")), "r": L(da), "c": L(rec("n", types.Long(1)))}, "permit(principal, action, resource) when { context.n == 1 };")
	add("no-unknowns", T(nil, nil, nil, nil, nil), batch.Variables{}, "permit(principal == User::\"a\", action, resource) when { context.n == 1 };")
	add("empty-list", T(V("p"), nil, nil, rec("n", V("n")), nil), batch.Variables{"p": L(ua, ub), "n": L()}, "permit(principal, action, resource);")
	add("unbound", T(V("p"), nil, nil, rec("n", V("n")), nil), batch.Variables{"p": L(ua, ub)}, "permit(principal, action, resource);")
	add("unused", T(V("p"), nil, nil, nil, nil), batch.Variables{"p": L(ua, ub), "zzz": L(types.Long(1))}, "permit(principal, action, resource);")
	add("invalid-part", T(V("p"), nil, nil, nil, nil), batch.Variables{"p": L(ua, types.Long(5))}, "permit(principal, action, resource);")
	add("set-dedup", T(nil, nil, nil, rec("ls", types.NewSet(V("x"), types.Long(1))), nil), batch.Variables{"x": L(types.Long(1), types.Long(2))}, "permit(principal, action, resource) when { context.ls == [1] };")
	// ignored parts
	add("ignore-principal", T(vh.MkIgnore(), nil, V("r"), nil, nil), batch.Variables{"r": L(da, db)}, "permit(principal == User::\"a\", action, resource == Doc::\"a\");", "permit(principal, action, resource) when { principal == User::\"b\" && resource == Doc::\"b\" };")
	add("ignore-with-stale-residual", T(nil, nil, vh.MkIgnore(), rec("key", V("k")), nil), batch.Variables{"k": L(types.True, types.False)}, "permit(principal, action, resource) when { context.key && true };", "permit(principal, action, resource == Doc::\"zzz\") when { context.key };")
	add("ignore-no-unknowns", T(vh.MkIgnore(), nil, nil, nil, nil), batch.Variables{}, "permit(principal == User::\"b\", action, resource) when { context.n == 1 };", "permit(principal, action, resource) when { principal.n == 7 && context.n == 2 };")
	add("ignore-context", T(nil, nil, V("r"), vh.MkIgnore(), nil), batch.Variables{"r": L(da, db)}, "permit(principal, action, resource == Doc::\"a\") when { context.n == 1 };", "forbid(principal, action, resource) when { context.n == 2 };")
	return out
}

func c05Random(c *vh.Ctx, g *vh.Gen, i int, pool []eval.Env) (c05Case, bool) {
	base := pool[c.Rng.Intn(len(pool))]
	base.Principal, base.Action, base.Resource = g.UID(), g.UID(), g.UID()
	t := g.TemplateFrom(base, vh.TemplateOpts{PVarPart: 0.3, PIgnore: 0.04, PCtxVar: 0.05, MaxHoles: 3, PReuse: 0.45})
	if len(t.VarKind) == 0 && c.Rng.Intn(10) != 0 {
		return c05Case{}, false
	}
	es, _ := t.Base.Entities.(types.EntityMap)
	np := 1 + c.Rng.Intn(4)
	var pols []*ast.Policy
	merged := map[vh.Ty][]types.Value{}
	for k := 0; k < np; k++ {
		p := g.PolicyOver(t, 3)
		pols = append(pols, p)
		for ty, vs := range vh.Literals(p) {
			merged[ty] = append(merged[ty], vs...)
		}
	}
	partOf := map[types.String]types.Value{}
	for _, pr := range []struct{ v, base types.Value }{{t.Env.Principal, t.Base.Principal}, {t.Env.Action, t.Base.Action}, {t.Env.Resource, t.Base.Resource}, {t.Env.Context, t.Base.Context}} {
		if n, ok := vh.IsVar(pr.v); ok {
			partOf[n] = pr.base
		}
	}
	vars := batch.Variables{}
	for _, n := range t.VarNames() {
		base, isPart := partOf[n]
		univ := g.Universe(t.VarKind[n], merged, base, 6, !isPart && c.Rng.Intn(5) == 0)
		var k int
		switch x := c.Rng.Intn(100); {
		case x < 2:
			k = 0
		case x < 28:
			k = 1
		case x < 88:
			k = 2 + c.Rng.Intn(2)
		default:
			k = 4
		}
		var l []types.Value
		for j := 0; j < k; j++ {
			l = append(l, univ[c.Rng.Intn(len(univ))]) // duplicates allowed
		}
		vars[n] = l
	}
	switch c.Rng.Intn(60) {
	case 0:
		for _, n := range t.VarNames() {
			delete(vars, n) // unbound
			break
		}
	case 1:
		vars["unused"] = []types.Value{types.Long(1)}
	}
	return c05Case{name: fmt.Sprintf("rand/%d", i), t: t, es: es, ps: c05Policies(pols...), vars: vars}, true
}

func runC05(c *vh.Ctx) {
	g := vh.NewGen(c.Rng)
	g.PWrong = 0.04
	b := &vh.Batch{}
	c.Res.Rule = "hand-written table (cloneSub shapes, every known partial-evaluation defect as it surfaces through batch, enumeration shapes, documented error cases, ignored parts) then random cases: 1-4 policies generated over the unknown positions x random stores x request templates (unknowns in any of the four parts and nested in records/sets to depth 3, the same unknown reused, 1-6 unknowns, ignored parts) x value lists of length 0-4 with duplicates (product <= 4^k); every callback result compared with cedar.Authorize on the fully substituted request; callback failure and context cancellation injected at EVERY position for products <= 24; then the LAZY MATRIX (c05_lazy.go, vh/gen_partial2.go, gen_partial3.go): a text-built table (container shape holding a variable at depth 1-3: set, record, record in record, set of records, entity set, the context itself x whole use ==, !=, contains, containsAll, containsAny, in, is..in x operand position of every lazily evaluated construct: both branches and the condition of a value-typed and a boolean if, both sides of && and ||, the right-hand side of is..in with the tested entity unknown x condition on another variable or on the same one x the three binding orders x permit / forbid) and random cases drawn round-robin over every cell construct x operand position x operand status (known, unknown, ignored part, erroring, container value with a nested variable, container value with a nested ignore marker) over rich templates that offer every status at once (the same variable in several parts and nested containers); ignore markers nested in the context are completed like ignored parts in the weak (permit-only) direction; distinct = distinct (policies, store, template, lists) encodings; non-trivial = at least one unknown and at least one callback expected"
	intens := 1
	if os.Getenv("VERIF_INTENSIFY") != "" {
		intens = 4
	}
	cases := c05Table()
	nTable := len(cases)
	nRand := c.N(1000, 30000) * intens
	var pool []eval.Env
	for i := 0; i < c.N(80, 2000); i++ {
		pool = append(pool, g.Env())
	}
	for i := 0; i < nRand; i++ {
		if cs, ok := c05Random(c, g, i, pool); ok {
			cases = append(cases, cs)
		}
	}
	// strengthening round 3: the lazy matrix (own random stream; the cases above are what they were)
	lazyTable := c05LazyTable()
	lazyRand := c05LazyCases(c, pool, intens)
	cases = append(cases, lazyTable...)
	cases = append(cases, lazyRand...)
	totalCalls, inside, outside, failing := 0, 0, 0, 0
	failingByClass := map[string]int{}
	for ci, cs := range cases {
		// cap the product
		size := 1
		for _, l := range cs.vars {
			size *= len(l)
		}
		if size > 256 {
			continue
		}
		inject := ci < nTable || ci%c.N(6, 3) == 0
		if cs.rich {
			inject = ci%c.N(12, 6) == 0
		}
		st := c05Check(c, g, b, cs, inject)
		totalCalls += st.calls
		key := fmt.Sprintf("%s|%p|%s|%s", c05PoliciesText(cs), cs.es, showReq(cs.t.Env.Principal, cs.t.Env.Action, cs.t.Env.Resource, cs.t.Env.Context), c05VarsKey(cs.vars))
		c.Count(key, len(cs.t.VarKind) > 0 && st.n > 0)
		c.Dist(fmt.Sprintf("unknowns:%d", len(cs.t.VarKind)))
		if len(cs.t.Ignored) > 0 {
			c.Dist("ignored-parts")
		}
		if cs.rich {
			c.Dist("lazy-stream:cases")
			if len(cs.t.NestedIgn) > 0 {
				c.Dist("lazy-stream:nested-ignore-markers")
			}
			for _, l := range cs.labels {
				c06LazyDist(c, l, st.failed)
			}
		}
		if st.failed {
			failing++
			for k := range st.classes {
				failingByClass[k]++
			}
		}
		// was a known-unsound situation exercised at the first stage?
		ev := map[string]int{}
		for _, ip := range cs.ps {
			env := cs.t.Env
			env.Entities = cs.es
			r := vh.NewRef(vh.RefCfg{}, env)
			vh.Protect(func() { r.PartialPolicy(ip.AST) })
			for k := range r.Events {
				ev[k]++
			}
		}
		two := false
		for n := range cs.t.VarKind {
			if twoBearingFields(cs.t.Env.Context, n) {
				two = true
			}
		}
		if len(ev) == 0 && !two {
			inside++
		} else {
			outside++
		}
		if ci < 2 || (ci >= nTable && ci < nTable+3) {
			c.Sample(map[string]any{"case": cs.name, "policies": c05PoliciesText(cs), "context": showMarked(cs.t.Env.Context), "principal": showMarked(cs.t.Env.Principal), "callbacks": st.calls, "failed": st.failed})
		}
		// white-box correspondence for cloneSub on this template's context
		for _, n := range cs.t.VarNames() {
			l := cs.vars[n]
			if len(l) == 0 {
				continue
			}
			v := l[0]
			if vh.ContainsVar(v) || !vh.ContainsVar(cs.t.Env.Context) {
				continue
			}
			got, changed := batch.VerifCloneSub(cs.t.Env.Context, n, v)
			b.Add("clonesub", map[string]any{"value": vh.EncValue(cs.t.Env.Context), "key": vh.Hex(string(n)), "with": vh.EncValue(v),
				"impl": vh.EncValue(got), "implChanged": changed}, "agree", cs.name)
		}
	}
	c.Res.Notes = append(c.Res.Notes,
		fmt.Sprintf("cases=%d (table %d, lazy-matrix table %d, lazy-matrix random %d); callbacks observed=%d; templates exercising no situation of a repaired defect family (at the first stage; no record with two fields bearing one unknown)=%d, exercising one=%d; failing cases=%d", len(cases), nTable, len(lazyTable), len(lazyRand), totalCalls, inside, outside, failing),
		"failing cases by class: "+fmtCounts(failingByClass))
	ds, _, err := c.Correspond(b)
	if err != nil {
		c.Report(vh.Finding{Class: "driver-failure", What: err.Error(), Check: "correspondence", Op: "clonesub", NoInput: true})
		return
	}
	for i, d := range ds {
		c.Res.WhiteboxDrift++
		c.Dist("drift:lean-model-clonesub")
		if i < 3 {
			c.Res.Notes = append(c.Res.Notes, fmt.Sprintf("whitebox drift (cloneSub model vs impl) on %s: %s", d.Line.Tag, oneLineN(d.Model, 400)))
		}
	}
}

func c05VarsKey(vars batch.Variables) string {
	var ks []string
	for k := range vars {
		ks = append(ks, string(k))
	}
	sort.Strings(ks)
	var xs []string
	for _, k := range ks {
		var vs []string
		for _, v := range vars[types.String(k)] {
			vs = append(vs, vh.ShowValue(v))
		}
		xs = append(xs, k+"="+strings.Join(vs, ","))
	}
	return strings.Join(xs, ";")
}
