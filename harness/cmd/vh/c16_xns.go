package main

// C16: an independent reference for schema resolution on the entity / common-type fragment (no actions), written from
// the documented Cedar rules and used as the oracle of the cross-namespace common-type family (vh/gen_c16b.go) and to
// tell a genuine common-type cycle from anything else when Resolve exhausts the stack:
//
//   - a qualified reference A::B::N names exactly that declaration (common type first, then entity/enum type);
//     `__cedar::N` names the built-in N;
//   - an unqualified reference N written inside namespace NS names NS::N if NS declares a common type or an entity/enum
//     type N, else N of the empty namespace (common type, then entity type), else the built-in N, else it is undefined;
//   - the body of a common type is read in the namespace that DECLARES the common type, never in the namespace of
//     the reference that led to it;
//   - a namespaced declaration whose base name is also declared in the empty namespace is illegal (RFC 70);
//   - a cycle among common types (through sets and records as well) is an error, wherever it is and whether used or not.
//
// Like cedar-go (and unlike the Rust implementation) the reference diagnoses an undefined reference only when it is
// reachable from an entity shape / tags / parent list: C16 is about termination, and the lazy rule is what Resolve
// documents; schemas on which the two rules differ are counted (`xns:undefined-but-unused`).
//
// The reference shares no code with resolved.Resolve: declarations carry their namespace, cycles are found by a
// three-colour depth-first search over an explicit edge list (the implementation: Kahn), types are inlined by a
// memoised recursion that refuses to re-enter a common type it is still expanding.

import (
	"fmt"
	"sort"
	"strings"
	"sync"

	"github.com/cedar-policy/cedar-go/types"
	sast "github.com/cedar-policy/cedar-go/x/exp/schema/ast"
	"github.com/cedar-policy/cedar-go/x/exp/schema/resolved"

	"verifharness/vh"
)

// c16CrashBudget counts the operations of one family that did not return; once `limit` is reached, workers started for
// that family get the small stack cap (a fatal stack overflow then costs milliseconds instead of seconds).
type c16CrashBudget struct {
	mu    sync.Mutex
	n     int
	limit int
}

func (b *c16CrashBudget) note() {
	if b == nil {
		return
	}
	b.mu.Lock()
	b.n++
	b.mu.Unlock()
}

func (b *c16CrashBudget) count() int {
	if b == nil {
		return 0
	}
	b.mu.Lock()
	defer b.mu.Unlock()
	return b.n
}

func (b *c16CrashBudget) spent() bool { return b != nil && b.count() >= b.limit }

type c16RefCommon struct {
	ns   string
	body sast.IsType
}

type c16RefDecls struct {
	commons map[string]c16RefCommon
	ents    map[string]bool // entity and enum types, fully qualified
	dup     bool            // an entity and an enum of the same name in one namespace
	shadow  bool            // RFC 70
	hasActs bool
}

func c16RefQualify(ns, n string) string {
	if ns == "" {
		return n
	}
	return ns + "::" + n
}

func c16RefCollect(s *sast.Schema) *c16RefDecls {
	d := &c16RefDecls{commons: map[string]c16RefCommon{}, ents: map[string]bool{}}
	bare := map[string]bool{}
	reg := func(ns string, ents sast.Entities, enums sast.Enums, cts sast.CommonTypes, acts sast.Actions) {
		for n := range ents {
			d.ents[c16RefQualify(ns, string(n))] = true
			if _, ok := enums[n]; ok {
				d.dup = true
			}
		}
		for n := range enums {
			d.ents[c16RefQualify(ns, string(n))] = true
		}
		for n, ct := range cts {
			d.commons[c16RefQualify(ns, string(n))] = c16RefCommon{ns: ns, body: ct.Type}
		}
		if len(acts) > 0 {
			d.hasActs = true
		}
	}
	reg("", s.Entities, s.Enums, s.CommonTypes, s.Actions)
	for n := range s.Entities {
		bare[string(n)] = true
	}
	for n := range s.Enums {
		bare[string(n)] = true
	}
	for n := range s.CommonTypes {
		bare[string(n)] = true
	}
	for nsName, ns := range s.Namespaces {
		reg(string(nsName), ns.Entities, ns.Enums, ns.CommonTypes, ns.Actions)
		for n := range ns.Entities {
			d.shadow = d.shadow || bare[string(n)]
		}
		for n := range ns.Enums {
			d.shadow = d.shadow || bare[string(n)]
		}
		for n := range ns.CommonTypes {
			d.shadow = d.shadow || bare[string(n)]
		}
	}
	return d
}

var c16RefBuiltins = map[string]resolved.IsType{
	"String": resolved.StringType{}, "Long": resolved.LongType{}, "Bool": resolved.BoolType{}, "Boolean": resolved.BoolType{},
	"ipaddr": resolved.ExtensionType("ipaddr"), "decimal": resolved.ExtensionType("decimal"),
	"datetime": resolved.ExtensionType("datetime"), "duration": resolved.ExtensionType("duration"),
}

// what a type reference written in namespace ns denotes: kind c (common type, key), e (entity type, key), b (built-in, key), u (undefined)
func (d *c16RefDecls) lookup(ns, ref string) (kind byte, key string) {
	if strings.Contains(ref, "::") {
		if strings.HasPrefix(ref, "__cedar::") {
			if _, ok := c16RefBuiltins[ref[len("__cedar::"):]]; ok {
				return 'b', ref[len("__cedar::"):]
			}
			return 'u', ref
		}
		if _, ok := d.commons[ref]; ok {
			return 'c', ref
		}
		if d.ents[ref] {
			return 'e', ref
		}
		return 'u', ref
	}
	for _, scope := range []string{ns, ""} {
		q := c16RefQualify(scope, ref)
		if _, ok := d.commons[q]; ok {
			return 'c', q
		}
		if d.ents[q] {
			return 'e', q
		}
		if scope == "" {
			break
		}
	}
	if _, ok := c16RefBuiltins[ref]; ok {
		return 'b', ref
	}
	return 'u', ref
}

func (d *c16RefDecls) lookupEntity(ns, ref string) (string, bool) {
	if strings.Contains(ref, "::") {
		return ref, d.ents[ref]
	}
	if ns != "" && d.ents[ns+"::"+ref] {
		return ns + "::" + ref, true
	}
	return ref, d.ents[ref]
}

func c16RefTypeRefs(t sast.IsType, out *[]string) {
	switch t := t.(type) {
	case sast.TypeRef:
		*out = append(*out, string(t))
	case sast.SetType:
		c16RefTypeRefs(t.Element, out)
	case sast.RecordType:
		for _, k := range sortedKeysC16(t) {
			c16RefTypeRefs(t[k].Type, out)
		}
	}
}

func sortedKeysC16[K ~string, V any](m map[K]V) []K {
	ks := make([]K, 0, len(m))
	for k := range m {
		ks = append(ks, k)
	}
	sort.Slice(ks, func(i, j int) bool { return ks[i] < ks[j] })
	return ks
}

// commonCycle: is there a cycle in the "body mentions" relation of the common types (each body read in its declaring namespace)?
func (d *c16RefDecls) commonCycle() (bool, string) {
	edges := map[string][]string{}
	for name, ct := range d.commons {
		var refs []string
		c16RefTypeRefs(ct.body, &refs)
		for _, r := range refs {
			if k, key := d.lookup(ct.ns, r); k == 'c' {
				edges[name] = append(edges[name], key)
			}
		}
	}
	colour := map[string]int{} // 0 white, 1 grey, 2 black
	type frame struct {
		n string
		i int
	}
	for _, start := range sortedKeysC16(d.commons) {
		if colour[start] != 0 {
			continue
		}
		stack := []frame{{start, 0}}
		colour[start] = 1
		for len(stack) > 0 {
			f := &stack[len(stack)-1]
			if f.i < len(edges[f.n]) {
				m := edges[f.n][f.i]
				f.i++
				switch colour[m] {
				case 1:
					return true, m
				case 0:
					colour[m] = 1
					stack = append(stack, frame{m, 0})
				}
				continue
			}
			colour[f.n] = 2
			stack = stack[:len(stack)-1]
		}
	}
	return false, ""
}

// c16RefHasCommonCycle answers the classification question for any schema AST.
func c16RefHasCommonCycle(s *sast.Schema) bool {
	if s == nil {
		return false
	}
	cyc, _ := c16RefCollect(s).commonCycle()
	return cyc
}

type c16RefOut struct {
	Applicable      bool   // the schema is inside the fragment (no actions)
	OK              bool   // accepted
	Dump            string // vh.DumpResolved of the reference's resolved schema
	Why             string // reason of the rejection
	Cycle           bool
	UnusedUndefined bool // an undefined reference in a common type no entity reaches (accepted by the lazy rule)
}

type c16RefErr string

func c16RefResolve(s *sast.Schema) (out c16RefOut) {
	d := c16RefCollect(s)
	out.Applicable = !d.hasActs
	if _, ok := s.Namespaces[""]; ok {
		out.Applicable = false
	}
	out.Cycle, _ = d.commonCycle()
	switch {
	case d.dup:
		out.Why = "declared-twice"
		return out
	case d.shadow:
		out.Why = "shadowing"
		return out
	case out.Cycle:
		out.Why = "common-type-cycle"
		return out
	}
	expanding := map[string]bool{}
	reached := map[string]bool{}
	var inline func(ns string, t sast.IsType) resolved.IsType
	inline = func(ns string, t sast.IsType) resolved.IsType {
		switch t := t.(type) {
		case sast.StringType:
			return resolved.StringType{}
		case sast.LongType:
			return resolved.LongType{}
		case sast.BoolType:
			return resolved.BoolType{}
		case sast.ExtensionType:
			return resolved.ExtensionType(t)
		case sast.SetType:
			return resolved.SetType{Element: inline(ns, t.Element)}
		case sast.RecordType:
			r := make(resolved.RecordType, len(t))
			for _, k := range sortedKeysC16(t) {
				a := t[k]
				r[k] = resolved.Attribute{Type: inline(ns, a.Type), Optional: a.Optional, Annotations: resolved.Annotations(a.Annotations)}
			}
			return r
		case sast.EntityTypeRef:
			q, ok := d.lookupEntity(ns, string(t))
			if !ok {
				panic(c16RefErr("undefined-entity-type"))
			}
			return resolved.EntityType(q)
		case sast.TypeRef:
			switch k, key := d.lookup(ns, string(t)); k {
			case 'c':
				if expanding[key] {
					panic(c16RefErr("common-type-cycle")) // unreachable after commonCycle; kept so that the reference itself cannot loop
				}
				expanding[key] = true
				defer func() { expanding[key] = false }()
				reached[key] = true
				ct := d.commons[key]
				return inline(ct.ns, ct.body)
			case 'e':
				return resolved.EntityType(key)
			case 'b':
				return c16RefBuiltins[key]
			}
			panic(c16RefErr("undefined-type"))
		}
		panic(c16RefErr(fmt.Sprintf("unknown-node-%T", t)))
	}
	res := &resolved.Schema{Namespaces: map[types.Path]resolved.Namespace{}, Entities: map[types.EntityType]resolved.Entity{},
		Enums: map[types.EntityType]resolved.Enum{}, Actions: map[types.EntityUID]resolved.Action{}}
	body := func(ns string, ents sast.Entities, enums sast.Enums) {
		for _, n := range sortedKeysC16(ents) {
			e := ents[n]
			q := types.EntityType(c16RefQualify(ns, string(n)))
			re := resolved.Entity{Name: q, Annotations: resolved.Annotations(e.Annotations)}
			for _, p := range e.ParentTypes {
				pq, ok := d.lookupEntity(ns, string(p))
				if !ok {
					panic(c16RefErr("undefined-parent-type"))
				}
				re.ParentTypes = append(re.ParentTypes, types.EntityType(pq))
			}
			if e.Shape != nil {
				re.Shape = inline(ns, e.Shape).(resolved.RecordType)
			}
			if e.Tags != nil {
				re.Tags = inline(ns, e.Tags)
			}
			res.Entities[q] = re
		}
		for _, n := range sortedKeysC16(enums) {
			en := enums[n]
			q := types.EntityType(c16RefQualify(ns, string(n)))
			vs := make([]types.EntityUID, len(en.Values))
			for i, v := range en.Values {
				vs[i] = types.NewEntityUID(q, v)
			}
			res.Enums[q] = resolved.Enum{Name: q, Annotations: resolved.Annotations(en.Annotations), Values: vs}
		}
	}
	func() {
		defer func() {
			if r := recover(); r != nil {
				e, ok := r.(c16RefErr)
				if !ok {
					panic(r)
				}
				out.Why = string(e)
			}
		}()
		body("", s.Entities, s.Enums)
		for _, nsName := range sortedKeysC16(s.Namespaces) {
			ns := s.Namespaces[nsName]
			res.Namespaces[nsName] = resolved.Namespace{Name: nsName, Annotations: resolved.Annotations(ns.Annotations)}
			body(string(nsName), ns.Entities, ns.Enums)
		}
		out.OK = true
	}()
	if out.OK {
		out.Dump = vh.DumpResolved(res)
		for name, ct := range d.commons {
			if reached[name] {
				continue
			}
			var refs []string
			c16RefTypeRefs(ct.body, &refs)
			for _, r := range refs {
				if k, _ := d.lookup(ct.ns, r); k == 'u' {
					out.UnusedUndefined = true
				}
			}
		}
	}
	return out
}

// c16ClassOfResolveCrash classifies a Resolve that did not return. A stack overflow is put into the class of the
// recorded defect `resolve-common-type-cycle-undetected` only when the independent reference finds a genuine cycle among
// the schema's common types (that is what that defect is: a cycle the Kahn pass does not see); an overflow on a schema
// WITHOUT such a cycle (the correct answer being a resolved schema or an "undefined type" error) is a different failure.
func c16ClassOfResolveCrash(cs *c16Case, cr c16Crash) string {
	if cr.Confirmed && cr.Kind == "stack-overflow" {
		if strings.Contains(cr.Funcs, "resolveTypeRef") && strings.Contains(cr.Funcs, "resolveType") && c16RefHasCommonCycle(cs.S) {
			return "resolve-common-type-cycle-undetected"
		}
		return "resolve-stack-overflow"
	}
	return c16ClassOfCrash(cs.Ops[0], cr)
}

// c16CheckXns compares the outcome of Resolve (worker result line, without the "resolve\t" prefix: "ok <dump>" | "err")
// on one schema of the family with the reference; returns a finding class ("" = agreement) and a description.
func c16CheckXns(ref c16RefOut, impl string) (class, what string) {
	switch {
	case impl == "err" && ref.OK:
		return "xns-resolve-rejects-resolvable-schema", "Resolve rejects a schema the reference resolves to " + truncC16(ref.Dump, 300)
	case strings.HasPrefix(impl, "ok ") && !ref.OK:
		return "xns-resolve-accepts-" + ref.Why, "Resolve accepts a schema the reference rejects (" + ref.Why + "): " + truncC16(impl, 300)
	case strings.HasPrefix(impl, "ok ") && strings.TrimPrefix(impl, "ok ") != ref.Dump:
		return "xns-resolved-type-differs", fmt.Sprintf("Resolve and the reference inline differently: impl=%q reference=%q", truncC16(impl, 300), truncC16(ref.Dump, 300))
	}
	return "", ""
}
