package main

// C14 helpers over x/exp/ast: child enumeration, rebuilding with transformed children, the two
// normalisers used to attribute a decode→encode difference (record-entry order / annotation order),
// and a tiny policy-JSON text builder that does not go through any codec under test.

import (
	"encoding/json"
	"fmt"
	"sort"
	"strings"

	"github.com/cedar-policy/cedar-go/x/exp/ast"
)

// c14MapChildren rebuilds n with f applied to every direct child.
func c14MapChildren(n ast.IsNode, f func(ast.IsNode) ast.IsNode) ast.IsNode {
	bin := func(b ast.BinaryNode) ast.BinaryNode { return ast.BinaryNode{Left: f(b.Left), Right: f(b.Right)} }
	un := func(u ast.UnaryNode) ast.UnaryNode { return ast.UnaryNode{Arg: f(u.Arg)} }
	str := func(s ast.StrOpNode) ast.StrOpNode { return ast.StrOpNode{Arg: f(s.Arg), Value: s.Value} }
	switch v := n.(type) {
	case ast.NodeValue, ast.NodeTypeVariable:
		return n
	case ast.NodeTypeAnd:
		return ast.NodeTypeAnd{BinaryNode: bin(v.BinaryNode)}
	case ast.NodeTypeOr:
		return ast.NodeTypeOr{BinaryNode: bin(v.BinaryNode)}
	case ast.NodeTypeEquals:
		return ast.NodeTypeEquals{BinaryNode: bin(v.BinaryNode)}
	case ast.NodeTypeNotEquals:
		return ast.NodeTypeNotEquals{BinaryNode: bin(v.BinaryNode)}
	case ast.NodeTypeLessThan:
		return ast.NodeTypeLessThan{BinaryNode: bin(v.BinaryNode)}
	case ast.NodeTypeLessThanOrEqual:
		return ast.NodeTypeLessThanOrEqual{BinaryNode: bin(v.BinaryNode)}
	case ast.NodeTypeGreaterThan:
		return ast.NodeTypeGreaterThan{BinaryNode: bin(v.BinaryNode)}
	case ast.NodeTypeGreaterThanOrEqual:
		return ast.NodeTypeGreaterThanOrEqual{BinaryNode: bin(v.BinaryNode)}
	case ast.NodeTypeAdd:
		return ast.NodeTypeAdd{BinaryNode: bin(v.BinaryNode)}
	case ast.NodeTypeSub:
		return ast.NodeTypeSub{BinaryNode: bin(v.BinaryNode)}
	case ast.NodeTypeMult:
		return ast.NodeTypeMult{BinaryNode: bin(v.BinaryNode)}
	case ast.NodeTypeIn:
		return ast.NodeTypeIn{BinaryNode: bin(v.BinaryNode)}
	case ast.NodeTypeContains:
		return ast.NodeTypeContains{BinaryNode: bin(v.BinaryNode)}
	case ast.NodeTypeContainsAll:
		return ast.NodeTypeContainsAll{BinaryNode: bin(v.BinaryNode)}
	case ast.NodeTypeContainsAny:
		return ast.NodeTypeContainsAny{BinaryNode: bin(v.BinaryNode)}
	case ast.NodeTypeGetTag:
		return ast.NodeTypeGetTag{BinaryNode: bin(v.BinaryNode)}
	case ast.NodeTypeHasTag:
		return ast.NodeTypeHasTag{BinaryNode: bin(v.BinaryNode)}
	case ast.NodeTypeNot:
		return ast.NodeTypeNot{UnaryNode: un(v.UnaryNode)}
	case ast.NodeTypeNegate:
		return ast.NodeTypeNegate{UnaryNode: un(v.UnaryNode)}
	case ast.NodeTypeIsEmpty:
		return ast.NodeTypeIsEmpty{UnaryNode: un(v.UnaryNode)}
	case ast.NodeTypeIfThenElse:
		return ast.NodeTypeIfThenElse{If: f(v.If), Then: f(v.Then), Else: f(v.Else)}
	case ast.NodeTypeAccess:
		return ast.NodeTypeAccess{StrOpNode: str(v.StrOpNode)}
	case ast.NodeTypeHas:
		return ast.NodeTypeHas{StrOpNode: str(v.StrOpNode)}
	case ast.NodeTypeLike:
		return ast.NodeTypeLike{Arg: f(v.Arg), Value: v.Value}
	case ast.NodeTypeIs:
		return ast.NodeTypeIs{Left: f(v.Left), EntityType: v.EntityType}
	case ast.NodeTypeIsIn:
		return ast.NodeTypeIsIn{NodeTypeIs: ast.NodeTypeIs{Left: f(v.Left), EntityType: v.EntityType}, Entity: f(v.Entity)}
	case ast.NodeTypeSet:
		es := make([]ast.IsNode, len(v.Elements))
		for i, e := range v.Elements {
			es[i] = f(e)
		}
		return ast.NodeTypeSet{Elements: es}
	case ast.NodeTypeRecord:
		es := make([]ast.RecordElementNode, len(v.Elements))
		for i, e := range v.Elements {
			es[i] = ast.RecordElementNode{Key: e.Key, Value: f(e.Value)}
		}
		return ast.NodeTypeRecord{Elements: es}
	case ast.NodeTypeExtensionCall:
		as := make([]ast.IsNode, len(v.Args))
		for i, a := range v.Args {
			as[i] = f(a)
		}
		return ast.NodeTypeExtensionCall{Name: v.Name, Args: as}
	}
	panic(fmt.Sprintf("c14MapChildren: unknown node %T", n))
}

// c14Walk calls fn on n and all its descendants.
func c14Walk(n ast.IsNode, fn func(ast.IsNode)) {
	fn(n)
	c14MapChildren(n, func(c ast.IsNode) ast.IsNode { c14Walk(c, fn); return c })
}

// c14SortRecords returns n with the entries of every record literal sorted by key.
func c14SortRecords(n ast.IsNode) ast.IsNode {
	n = c14MapChildren(n, c14SortRecords)
	if r, ok := n.(ast.NodeTypeRecord); ok {
		es := append([]ast.RecordElementNode{}, r.Elements...)
		sort.SliceStable(es, func(i, j int) bool { return es[i].Key < es[j].Key })
		return ast.NodeTypeRecord{Elements: es}
	}
	return n
}

// c14NormPolicy copies p with record entries and/or annotations in sorted order.
func c14NormPolicy(p *ast.Policy, records, annotations bool) *ast.Policy {
	q := *p
	if annotations {
		as := append([]ast.AnnotationType{}, p.Annotations...)
		sort.SliceStable(as, func(i, j int) bool { return as[i].Key < as[j].Key })
		q.Annotations = as
	}
	if records {
		cs := make([]ast.ConditionType, len(p.Conditions))
		for i, c := range p.Conditions {
			cs[i] = ast.ConditionType{Condition: c.Condition, Body: c14SortRecords(c.Body)}
		}
		q.Conditions = cs
	}
	return &q
}

// ---- mini policy-JSON builder (text only, independent of internal/json) ----

type c14J struct{ s string }

func c14JStr(s string) string { b, _ := json.Marshal(s); return string(b) }

func c14JLong(n int64) c14J    { return c14J{fmt.Sprintf(`{"Value":%d}`, n)} }
func c14JString(s string) c14J { return c14J{`{"Value":` + c14JStr(s) + `}`} }
func c14JBool(b bool) c14J     { return c14J{fmt.Sprintf(`{"Value":%v}`, b)} }
func c14JVar(v string) c14J    { return c14J{`{"Var":` + c14JStr(v) + `}`} }
func c14JBin(op string, l, r c14J) c14J {
	return c14J{`{` + c14JStr(op) + `:{"left":` + l.s + `,"right":` + r.s + `}}`}
}
func c14JAccess(l c14J, attr string) c14J {
	return c14J{`{".":{"left":` + l.s + `,"attr":` + c14JStr(attr) + `}}`}
}
func c14JHas(l c14J, attr string) c14J {
	return c14J{`{"has":{"left":` + l.s + `,"attr":` + c14JStr(attr) + `}}`}
}
func c14JSet(es ...c14J) c14J {
	var ss []string
	for _, e := range es {
		ss = append(ss, e.s)
	}
	return c14J{`{"Set":[` + strings.Join(ss, ",") + `]}`}
}

// c14JRecord writes the entries in the given textual order (a JSON object: order is not semantic).
func c14JRecord(keys []string, vals []c14J) c14J {
	var ss []string
	for i, k := range keys {
		ss = append(ss, c14JStr(k)+":"+vals[i].s)
	}
	return c14J{`{"Record":{` + strings.Join(ss, ",") + `}}`}
}

// c14JPolicy assembles a policy JSON document; annotations in the given textual order.
func c14JPolicy(effect string, annKeys, annVals []string, conds []c14J) string {
	var sb strings.Builder
	sb.WriteString(`{`)
	if len(annKeys) > 0 {
		var ss []string
		for i, k := range annKeys {
			ss = append(ss, c14JStr(k)+":"+c14JStr(annVals[i]))
		}
		sb.WriteString(`"annotations":{` + strings.Join(ss, ",") + `},`)
	}
	sb.WriteString(`"effect":` + c14JStr(effect) + `,"principal":{"op":"All"},"action":{"op":"All"},"resource":{"op":"All"}`)
	if len(conds) > 0 {
		var ss []string
		for _, c := range conds {
			ss = append(ss, `{"kind":"when","body":`+c.s+`}`)
		}
		sb.WriteString(`,"conditions":[` + strings.Join(ss, ",") + `]`)
	}
	sb.WriteString(`}`)
	return sb.String()
}
