package main

// C19, strengthening round 3: the "dynamic operand" workload.
//
// A compiled policy is shared by every goroutine that authorizes against its PolicySet; its evaluator nodes must not
// keep anything between calls.  A node that memoises (the last string parsed, the last set built, a compiled pattern …)
// is only ever WRITTEN when its operands are not constants — constant operands are folded away when the policy is
// compiled — and only corrupts results when concurrent calls bring DIFFERENT operand values.  The generated policies
// of the main fixture mostly apply extension functions to literals.  This workload applies
//   * every extension constructor and method (signature table below; cross-checked against the extension table that
//     factgen extracts from the source, so a function added to cedar-go is not silently left out), in two forms —
//     over value-typed request fields and over values constructed from request STRINGS in place
//     (datetime(context.sdt).toDate(), ip(context.sip).isInRange(ip(context.sip2)), …);
//   * every evaluator node kind (the arms of ToEval's type switch, cross-checked the same way): set / record literals
//     with non-constant members, like, in, is, is..in, has, hasTag / getTag with a non-constant tag, contains*, isEmpty,
//     arithmetic, comparisons, &&, ||, if, attribute access
// to operands taken from the request, over requests whose operand values all differ.  Each policy compares its result
// with a pivot so that about half of the requests satisfy it; the decision and the exact reason / error sets of every
// concurrent call are compared with the sequential answer, the complete object graph of the shared policy set is
// compared before / after (a memo written by a read-only call shows there even without any concurrency), and the run
// is under the race detector.

import (
	"context"
	"encoding/json"
	"fmt"
	"math/rand"
	"os"
	"path/filepath"
	"sort"
	"strings"

	cedar "github.com/cedar-policy/cedar-go"
	"github.com/cedar-policy/cedar-go/types"
	"github.com/cedar-policy/cedar-go/x/exp/ast"
	"github.com/cedar-policy/cedar-go/x/exp/batch"
	"github.com/cedar-policy/cedar-go/x/exp/eval"

	"verifharness/vh"
)

type c19Dyn struct {
	pols  []vh.IDPolicy
	ps    *cedar.PolicySet
	reqs  []cedar.Request
	envs  []eval.Env
	breqs []batch.Request
	cover map[string]bool // "ast.NodeTypeX" / "ext:name" applied to a non-constant operand
}

// c19ExtSigs: the extension functions with the request fields that feed each argument position (value-typed fields;
// the string fields feeding the constructors are s<kind>, s<kind>2).
var c19ExtSigs = []struct {
	name string
	args []vh.Ty
	res  vh.Ty
}{
	{"datetime", []vh.Ty{vh.TString}, vh.TDatetime}, {"decimal", []vh.Ty{vh.TString}, vh.TDecimal}, {"duration", []vh.Ty{vh.TString}, vh.TDuration}, {"ip", []vh.Ty{vh.TString}, vh.TIP},
	{"lessThan", []vh.Ty{vh.TDecimal, vh.TDecimal}, vh.TBool}, {"lessThanOrEqual", []vh.Ty{vh.TDecimal, vh.TDecimal}, vh.TBool},
	{"greaterThan", []vh.Ty{vh.TDecimal, vh.TDecimal}, vh.TBool}, {"greaterThanOrEqual", []vh.Ty{vh.TDecimal, vh.TDecimal}, vh.TBool},
	{"isIpv4", []vh.Ty{vh.TIP}, vh.TBool}, {"isIpv6", []vh.Ty{vh.TIP}, vh.TBool}, {"isLoopback", []vh.Ty{vh.TIP}, vh.TBool}, {"isMulticast", []vh.Ty{vh.TIP}, vh.TBool},
	{"isInRange", []vh.Ty{vh.TIP, vh.TIP}, vh.TBool},
	{"toDate", []vh.Ty{vh.TDatetime}, vh.TDatetime}, {"toTime", []vh.Ty{vh.TDatetime}, vh.TDuration},
	{"offset", []vh.Ty{vh.TDatetime, vh.TDuration}, vh.TDatetime}, {"durationSince", []vh.Ty{vh.TDatetime, vh.TDatetime}, vh.TDuration},
	{"toDays", []vh.Ty{vh.TDuration}, vh.TLong}, {"toHours", []vh.Ty{vh.TDuration}, vh.TLong}, {"toMinutes", []vh.Ty{vh.TDuration}, vh.TLong},
	{"toSeconds", []vh.Ty{vh.TDuration}, vh.TLong}, {"toMilliseconds", []vh.Ty{vh.TDuration}, vh.TLong},
}

var c19ValueField = map[vh.Ty]string{vh.TDatetime: "dt", vh.TDecimal: "dec", vh.TDuration: "dur", vh.TIP: "ip"}
var c19Ctor = map[vh.Ty]string{vh.TDatetime: "datetime", vh.TDecimal: "decimal", vh.TDuration: "duration", vh.TIP: "ip"}

var (
	c19DtStrings  = []string{"2024-01-01", "2024-02-29", "1970-01-01T00:00:00Z", "2024-01-01T12:34:56Z", "2024-01-01T12:34:56.789Z", "1969-12-31T23:59:59.999Z", "2024-01-01T12:34:56+0130", "9999-12-31T23:59:59.999Z", "2031-07-04T01:02:03Z", "1999-12-31"}
	c19DurStrings = []string{"0ms", "1ms", "1s", "1m", "1h", "1d", "1d2h3m4s5ms", "-1d", "10m5ms", "36h", "-5s", "999ms"}
	c19DecStrings = []string{"0.0", "1.0", "-1.0", "1.5", "1.2345", "-0.5", "0.0001", "42.42", "-7.25", "100.0"}
	c19IPStrings  = []string{"127.0.0.1", "10.0.0.1", "10.0.0.0/8", "192.168.1.0/24", "224.0.0.1", "::1", "ff02::1", "2001:db8::/32", "10.1.2.3", "192.168.1.77", "fe80::1", "0.0.0.0/0"}
)

func c19Field(k string) ast.IsNode {
	return ast.NodeTypeAccess{StrOpNode: ast.StrOpNode{Arg: ast.NodeTypeVariable{Name: "context"}, Value: types.String(k)}}
}

func c19Ext(name string, args ...ast.IsNode) ast.IsNode {
	return ast.NodeTypeExtensionCall{Name: types.Path(name), Args: args}
}

func c19Lit(v types.Value) ast.IsNode { return ast.NodeValue{Value: v} }

func c19Bin(l, r ast.IsNode) ast.BinaryNode { return ast.BinaryNode{Left: l, Right: r} }

// c19NewDyn builds the workload over the entity map em; uids are the (sorted) entities of the store.
func c19NewDyn(rng *rand.Rand, em types.EntityMap, uids []types.EntityUID, nReq int) *c19Dyn {
	d := &c19Dyn{ps: cedar.NewPolicySet(), cover: map[string]bool{}}
	pickS := func(pool []string, i, salt int) types.String { return types.String(pool[(i*7+salt+rng.Intn(2))%len(pool)]) }
	users := []types.EntityUID{}
	for _, u := range uids {
		if u.Type == "User" || u.Type == "Group" {
			users = append(users, u)
		}
	}
	if len(users) == 0 {
		users = uids
	}
	for i := 0; i < nReq; i++ {
		mustDt := func(s types.String) types.Value { v, _ := types.ParseDatetime(string(s)); return v }
		mustDur := func(s types.String) types.Value { v, _ := types.ParseDuration(string(s)); return v }
		mustDec := func(s types.String) types.Value { v, _ := types.ParseDecimal(string(s)); return v }
		mustIP := func(s types.String) types.Value { v, _ := types.ParseIPAddr(string(s)); return v }
		m := types.RecordMap{
			"sdatetime": pickS(c19DtStrings, i, 0), "sdatetime2": pickS(c19DtStrings, i, 3),
			"sduration": pickS(c19DurStrings, i, 1), "sduration2": pickS(c19DurStrings, i, 5),
			"sdecimal": pickS(c19DecStrings, i, 2), "sdecimal2": pickS(c19DecStrings, i, 4),
			"sip": pickS(c19IPStrings, i, 0), "sip2": pickS(c19IPStrings, i, 2),
			"dt": mustDt(pickS(c19DtStrings, i, 6)), "dt2": mustDt(pickS(c19DtStrings, i, 1)),
			"dur": mustDur(pickS(c19DurStrings, i, 2)), "dur2": mustDur(pickS(c19DurStrings, i, 7)),
			"dec": mustDec(pickS(c19DecStrings, i, 5)), "dec2": mustDec(pickS(c19DecStrings, i, 1)),
			"ip": mustIP(pickS(c19IPStrings, i, 4)), "ip2": mustIP(pickS(c19IPStrings, i, 1)),
			"n": types.Long(int64(i%7) - 2), "m": types.Long(int64((i*3)%5)), "k": types.Long(int64(i % 4)),
			"s": types.String([]string{"a", "ab", "aab", "b", "alice", "a*b", "", "abc"}[i%8]), "s2": types.String([]string{"a", "b", "ab"}[i%3]),
			"b": types.Boolean(i%2 == 0), "b2": types.Boolean(i%3 == 0),
			"e": users[i%len(users)], "es": types.NewSet(users[(i+1)%len(users)], users[(i*2)%len(users)]),
			"ls": types.NewSet(types.Long(int64(i%4)), types.Long(int64(i%3)+1)), "ls2": types.NewSet(types.Long(int64(i%2)), types.Long(2)),
			"ss": types.NewSet(types.String("a"), types.String([]string{"x", "ab", "b"}[i%3])),
			"r": types.NewRecord(types.RecordMap{"n": types.Long(int64(i % 5)), "s": types.String([]string{"a", "b"}[i%2])}),
			"r2": types.NewRecord(types.RecordMap{"a": types.Long(int64(i%7) - 2), "b": types.String([]string{"a", "ab", "aab", "b", "alice", "a*b", "", "abc"}[(i+i%2)%8])}),
			"tag": []types.String{"t1", "t2", "s"}[i%3],
		}
		if i%3 != 0 {
			m["opt"] = types.Long(int64(i))
		}
		if i%5 == 4 { // one request in five brings strings that do not parse: the error path of the constructors
			m["sdatetime"], m["sduration"], m["sdecimal"], m["sip"] = types.String("2024-13-01"), types.String("1x"), types.String("1.23456"), types.String("10.0.0.256")
		}
		env := eval.Env{Entities: em, Principal: uids[i%len(uids)], Action: types.NewEntityUID("Action", "a"), Resource: uids[(i*5+1)%len(uids)], Context: types.NewRecord(m)}
		d.envs = append(d.envs, env)
		r, _ := vh.RequestOf(env)
		d.reqs = append(d.reqs, r)
	}
	// pivot: the value of `node` under a randomly chosen request for which it evaluates
	pivot := func(node ast.IsNode) (types.Value, bool) {
		off := rng.Intn(nReq)
		for j := 0; j < nReq; j++ {
			if v, err := eval.Eval(node, d.envs[(off+j)%nReq]); err == nil {
				return v, true
			}
		}
		return nil, false
	}
	add := func(label string, body ast.IsNode) {
		p := &ast.Policy{Effect: ast.EffectPermit, Principal: ast.ScopeTypeAll{}, Action: ast.ScopeTypeAll{}, Resource: ast.ScopeTypeAll{},
			Conditions: []ast.ConditionType{{Condition: ast.ConditionWhen, Body: body}}}
		p.Position = ast.Position{Filename: "dyn", Offset: 10 * len(d.pols), Line: len(d.pols) + 1, Column: 1}
		ip := vh.MkPolicy("dyn:"+label, p)
		d.pols = append(d.pols, ip)
		d.ps.Add(ip.ID, ip.P)
		c19Cover(body, d.cover)
	}
	// compare turns a call of result kind `res` into a condition that about half of the requests satisfy
	compare := func(node ast.IsNode, res vh.Ty) ast.IsNode {
		if res == vh.TBool {
			return node
		}
		pv, ok := pivot(node)
		if !ok {
			return ast.NodeTypeEquals{BinaryNode: c19Bin(node, node)}
		}
		switch res {
		case vh.TLong, vh.TDatetime, vh.TDuration:
			return ast.NodeTypeLessThanOrEqual{BinaryNode: c19Bin(node, c19Lit(pv))}
		case vh.TDecimal:
			return c19Ext("lessThanOrEqual", node, c19Lit(pv))
		}
		return ast.NodeTypeEquals{BinaryNode: c19Bin(node, c19Lit(pv))}
	}
	for _, sig := range c19ExtSigs {
		// form A: request fields of the argument kinds
		var a, b []ast.IsNode
		for i, k := range sig.args {
			suffix := ""
			if i > 0 && sig.args[0] == k {
				suffix = "2"
			}
			if k == vh.TString {
				a = append(a, c19Field("s"+sig.name+suffix))
				b = append(b, ast.NodeTypeIfThenElse{If: c19Field("b"), Then: c19Field("s" + sig.name), Else: c19Field("s" + sig.name + "2")})
				continue
			}
			a = append(a, c19Field(c19ValueField[k]+suffix))
			// form B: the argument constructed in place from a request string
			b = append(b, c19Ext(c19Ctor[k], c19Field("s"+c19Ctor[k]+suffix)))
		}
		add("ext:"+sig.name+"/fields", compare(c19Ext(sig.name, a...), sig.res))
		add("ext:"+sig.name+"/constructed", compare(c19Ext(sig.name, b...), sig.res))
	}
	// every evaluator node kind over non-constant operands
	ctx := ast.NodeTypeVariable{Name: "context"}
	prin, reso := ast.NodeTypeVariable{Name: "principal"}, ast.NodeTypeVariable{Name: "resource"}
	F := c19Field
	acc := func(e ast.IsNode, k string) ast.IsNode {
		return ast.NodeTypeAccess{StrOpNode: ast.StrOpNode{Arg: e, Value: types.String(k)}}
	}
	has := func(e ast.IsNode, k string) ast.IsNode {
		return ast.NodeTypeHas{StrOpNode: ast.StrOpNode{Arg: e, Value: types.String(k)}}
	}
	lt := func(l, r ast.IsNode) ast.IsNode { return ast.NodeTypeLessThan{BinaryNode: c19Bin(l, r)} }
	eq := func(l, r ast.IsNode) ast.IsNode { return ast.NodeTypeEquals{BinaryNode: c19Bin(l, r)} }
	L := func(n int64) ast.IsNode { return c19Lit(types.Long(n)) }
	setOf := func(es ...ast.IsNode) ast.IsNode { return ast.NodeTypeSet{Elements: es} }
	recOf := func(kv ...any) ast.IsNode {
		var el []ast.RecordElementNode
		for i := 0; i+1 < len(kv); i += 2 {
			el = append(el, ast.RecordElementNode{Key: types.String(kv[i].(string)), Value: kv[i+1].(ast.IsNode)})
		}
		return ast.NodeTypeRecord{Elements: el}
	}
	pat := func(comps ...any) types.Pattern { return types.NewPattern(comps...) }
	nodes := []struct {
		label string
		body  ast.IsNode
	}{
		{"access", lt(acc(F("r"), "n"), F("m"))},
		{"access-entity", eq(acc(prin, "n"), acc(reso, "n"))},
		{"add", lt(ast.NodeTypeAdd{BinaryNode: c19Bin(F("n"), F("m"))}, F("k"))},
		{"sub", lt(ast.NodeTypeSub{BinaryNode: c19Bin(F("n"), F("m"))}, F("k"))},
		{"mult", lt(ast.NodeTypeMult{BinaryNode: c19Bin(F("n"), F("m"))}, F("k"))},
		{"negate", lt(ast.NodeTypeNegate{UnaryNode: ast.UnaryNode{Arg: F("n")}}, F("k"))},
		{"and", ast.NodeTypeAnd{BinaryNode: c19Bin(F("b"), lt(F("n"), F("m")))}},
		{"or", ast.NodeTypeOr{BinaryNode: c19Bin(F("b2"), lt(F("m"), F("n")))}},
		{"not", ast.NodeTypeNot{UnaryNode: ast.UnaryNode{Arg: F("b")}}},
		{"if", eq(ast.NodeTypeIfThenElse{If: F("b"), Then: F("n"), Else: F("m")}, F("k"))},
		{"contains", ast.NodeTypeContains{BinaryNode: c19Bin(F("ls"), F("k"))}},
		{"containsAll", ast.NodeTypeContainsAll{BinaryNode: c19Bin(F("ls"), F("ls2"))}},
		{"containsAny", ast.NodeTypeContainsAny{BinaryNode: c19Bin(F("ls"), F("ls2"))}},
		{"isEmpty", ast.NodeTypeIsEmpty{UnaryNode: ast.UnaryNode{Arg: ast.NodeTypeIfThenElse{If: F("b"), Then: F("ls"), Else: setOf()}}}},
		{"equals", eq(F("s"), F("s2"))},
		{"notEquals", ast.NodeTypeNotEquals{BinaryNode: c19Bin(F("r"), recOf("n", F("k"), "s", F("s2")))}},
		{"lessThan", lt(F("n"), F("m"))},
		{"lessThanOrEqual", ast.NodeTypeLessThanOrEqual{BinaryNode: c19Bin(F("dt"), F("dt2"))}},
		{"greaterThan", ast.NodeTypeGreaterThan{BinaryNode: c19Bin(F("dur"), F("dur2"))}},
		{"greaterThanOrEqual", ast.NodeTypeGreaterThanOrEqual{BinaryNode: c19Bin(F("n"), F("k"))}},
		{"has", has(ctx, "opt")},
		{"has-entity", ast.NodeTypeAnd{BinaryNode: c19Bin(has(prin, "n"), lt(acc(prin, "n"), F("m")))}},
		{"hasTag", ast.NodeTypeHasTag{BinaryNode: c19Bin(prin, F("tag"))}},
		{"getTag", ast.NodeTypeAnd{BinaryNode: c19Bin(ast.NodeTypeHasTag{BinaryNode: c19Bin(prin, F("tag"))}, eq(ast.NodeTypeGetTag{BinaryNode: c19Bin(prin, F("tag"))}, F("s")))}},
		{"in", ast.NodeTypeIn{BinaryNode: c19Bin(prin, F("e"))}},
		{"in-set", ast.NodeTypeIn{BinaryNode: c19Bin(F("e"), F("es"))}},
		{"in-set-literal", ast.NodeTypeIn{BinaryNode: c19Bin(prin, setOf(F("e"), reso))}},
		{"is", ast.NodeTypeIs{Left: F("e"), EntityType: "User"}},
		{"isIn", ast.NodeTypeIsIn{NodeTypeIs: ast.NodeTypeIs{Left: F("e"), EntityType: "User"}, Entity: F("es")}},
		{"like", ast.NodeTypeLike{Arg: F("s"), Value: pat(types.String("a"), types.Wildcard{})}},
		{"like-2", ast.NodeTypeLike{Arg: acc(F("r2"), "b"), Value: pat(types.Wildcard{}, types.String("b"))}},
		{"set-literal", ast.NodeTypeContains{BinaryNode: c19Bin(setOf(F("n"), F("m"), L(9)), F("k"))}},
		{"set-literal-eq", eq(setOf(F("k"), L(2)), F("ls2"))},
		{"record-literal", eq(acc(recOf("a", F("n"), "b", F("s")), "a"), F("m"))},
		{"record-literal-eq", eq(recOf("a", F("n"), "b", F("s")), F("r2"))},
		{"variable", eq(prin, F("e"))},
		{"value", eq(F("k"), L(1))},
	}
	for _, n := range nodes {
		add("node:"+n.label, n.body)
	}
	// batch over the same policies: a request string as a variable
	base := d.envs[0]
	m := base.Context.(types.Record).Map()
	m["sdatetime"], m["n"] = batch.Variable("t"), batch.Variable("n")
	d.breqs = []batch.Request{{Principal: base.Principal, Action: base.Action, Resource: base.Resource, Context: types.NewRecord(m),
		Variables: batch.Variables{"t": {types.String(c19DtStrings[0]), types.String(c19DtStrings[3]), types.String("x")}, "n": {types.Long(0), types.Long(3)}}}}
	return d
}

// c19Cover records the node kinds (and extension functions) of e that are applied to at least one non-constant operand.
func c19Cover(e ast.IsNode, into map[string]bool) bool {
	if _, isLit := e.(ast.NodeValue); isLit {
		return false
	}
	dynamic := false
	if _, isVar := e.(ast.NodeTypeVariable); isVar {
		dynamic = true
	}
	for _, ch := range vh.Children(e) {
		if c19Cover(ch, into) {
			dynamic = true
		}
	}
	if dynamic {
		into[fmt.Sprintf("%T", e)] = true
		if c, ok := e.(ast.NodeTypeExtensionCall); ok {
			into["ext:"+string(c.Name)] = true
		}
	}
	return dynamic
}

// c19WorkloadGaps compares what the dynamic workload covers with the tables factgen extracts from the source (the arms
// of ToEval's type switch, the extension table): anything cedar-go evaluates that the workload does not apply to
// non-constant operands is a gap of this check.
func c19WorkloadGaps(c *vh.Ctx, d *c19Dyn) []string {
	b, err := os.ReadFile(filepath.Join(c.VerifDir, ".facts.json"))
	if err != nil {
		return nil
	}
	var facts struct {
		ToEvalArms []string `json:"toEvalArms"`
		ExtMap     []struct{ Name string }
	}
	if json.Unmarshal(b, &facts) != nil {
		return nil
	}
	var gaps []string
	for _, arm := range facts.ToEvalArms {
		if arm != "ast.NodeValue" && !d.cover[arm] {
			gaps = append(gaps, arm)
		}
	}
	for _, e := range facts.ExtMap {
		if !d.cover["ext:"+e.Name] {
			gaps = append(gaps, "ext:"+e.Name)
		}
	}
	sort.Strings(gaps)
	return gaps
}

// c19DynOps: the read-only operations over the dynamic workload (appended to c19Ops).
func c19DynOps() []c19Op {
	n := func(f *c19Fixture) int { return len(f.dyn.reqs) }
	return []c19Op{
		{"cedar.Authorize(dynamic operands)", n, func(f *c19Fixture, k int) any {
			d, diag := cedar.Authorize(f.dyn.ps, f.em, f.dyn.reqs[k])
			return c19AuthzRaw{d, diag}
		}, showAuthzRaw},
		{"PolicySet.IsAuthorized(dynamic operands)", n, func(f *c19Fixture, k int) any {
			d, diag := f.dyn.ps.IsAuthorized(f.em, f.dyn.reqs[k]) //nolint:staticcheck
			return c19AuthzRaw{d, diag}
		}, showAuthzRaw},
		{"cedar.Authorize(PolicyMap, dynamic operands)", n, func(f *c19Fixture, k int) any {
			d, diag := cedar.Authorize(f.dyn.ps.Map(), f.em, f.dyn.reqs[k])
			return c19AuthzRaw{d, diag}
		}, showAuthzRaw},
		{"batch.Authorize(dynamic operands)", func(f *c19Fixture) int { return len(f.dyn.breqs) }, func(f *c19Fixture, k int) any {
			var r c19BatchRaw
			r.err = batch.Authorize(context.Background(), f.dyn.ps, f.em, f.dyn.breqs[k], func(res batch.Result) error {
				vals := make(batch.Values, len(res.Values))
				for n, v := range res.Values {
					vals[n] = v
				}
				r.items = append(r.items, c19BatchItem{res.Request, vals, res.Decision, res.Diagnostic})
				return nil
			})
			return r
		}, c19ShowBatch},
	}
}

var _ = strings.Join
